(* C17: every interleaving is a sequential execution of the critical sections
   in the order they were taken (linearizability at lock granularity), and the
   values disposed so far plus those still pending are exactly the values the
   sequential execution hands to dispose_func. *)
From Coq Require Import List NArith Bool Arith Lia Permutation.
From V Require Import model.Lru model.LruConc proofs.Lru_proofs.
Import ListNotations.

Lemma run_app m a b c :
  run m (a ++ b) c =
  let '(c1, xs1, ds1) := run m a c in
  let '(c2, xs2, ds2) := run m b c1 in (c2, xs1 ++ xs2, ds1 ++ ds2).
Proof.
  revert c. induction a as [|p a IH]; simpl; intros c.
  - destruct (run m b c) as [[c2 xs2] ds2]. reflexivity.
  - destruct (step m c p) as [[c' x] d]. rewrite IH.
    destruct (run m a c') as [[c1 xs1] ds1]. destruct (run m b c1) as [[c2 xs2] ds2].
    simpl. rewrite app_assoc. reflexivity.
Qed.

Definition Lin (m : nat) (c0 : cont) (s : cstate) : Prop :=
  exists ds, run m (c_done s) c0 = (c_cont s, map snd (c_results s), ds) /\
             Permutation ds (c_disposed s ++ all_pending s).

Lemma flat_pending_set l t th th' :
  nth_error l t = Some th ->
  Permutation (flat_map pending (set_thread l t th')) (pending th' ++ flat_map pending (set_thread l t (mkT [] (todo th)))) .
Proof.
  revert t. induction l as [|x l IH]; intros [|t]; simpl; try discriminate.
  - intros _. reflexivity.
  - intros H. rewrite (IH t H). rewrite !app_assoc. apply Permutation_app_tail. apply Permutation_app_comm.
Qed.

Lemma flat_pending_orig l t th :
  nth_error l t = Some th ->
  Permutation (flat_map pending l) (pending th ++ flat_map pending (set_thread l t (mkT [] (todo th)))).
Proof.
  revert t. induction l as [|x l IH]; intros [|t]; simpl; try discriminate.
  - intros [= ->]. reflexivity.
  - intros H. rewrite (IH t H). rewrite !app_assoc. apply Permutation_app_tail. apply Permutation_app_comm.
Qed.

Lemma Lin_step m c0 s t : Lin m c0 s -> Lin m c0 (cstep m s t).
Proof.
  intros (ds & Hr & Hp). unfold cstep.
  destruct (nth_error (c_threads s) t) as [th|] eqn:Et; [|exists ds; auto].
  destruct (pending th) as [|v r] eqn:Ep.
  - destruct (todo th) as [|p rest] eqn:Eo; [exists ds; auto|].
    destruct (step m (c_cont s) p) as [[c' x] d] eqn:Es.
    exists (ds ++ d). simpl. split.
    + rewrite run_app, Hr. simpl. rewrite Es. rewrite map_app, app_nil_r. simpl. reflexivity.
    + unfold all_pending in *. simpl.
      rewrite (flat_pending_set _ t th (mkT d rest) Et). simpl.
      rewrite Hp. rewrite (flat_pending_orig _ t th Et). rewrite Ep. simpl.
      rewrite Eo. rewrite <- !app_assoc. apply Permutation_app_head.
      apply Permutation_app_comm.
  - exists ds. simpl. split; [assumption|].
    unfold all_pending in *. simpl.
    rewrite (flat_pending_set _ t th (mkT r (todo th)) Et). simpl.
    rewrite Hp. rewrite (flat_pending_orig _ t th Et). rewrite Ep. simpl.
    rewrite <- !app_assoc. apply Permutation_app_head. simpl.
    reflexivity.
Qed.

Theorem linearizable m c0 progs sched :
  Lin m c0 (crun m sched (cinit c0 progs)).
Proof.
  unfold crun.
  assert (H0 : Lin m c0 (cinit c0 progs)).
  { exists []. simpl. split; [reflexivity|]. unfold all_pending, cinit. simpl.
    induction progs; simpl; auto. }
  revert H0. generalize (cinit c0 progs) as s.
  induction sched as [|t sched IH]; simpl; intros s H; [assumption|].
  apply IH. apply Lin_step. assumption.
Qed.
