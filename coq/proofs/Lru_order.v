(* C17: the container's order IS the order of last access (ghost time stamps),
   hence the entry evicted by an insertion is the least recently used one. *)
From Coq Require Import List NArith Bool Arith Lia Sorted.
From V Require Import model.Lru proofs.Lru_proofs.
Import ListNotations.

Definition stamps := key -> nat.
Definition upd (ts : stamps) (k : key) (t : nat) : stamps := fun x => if (x =? k)%N then t else ts x.

(* the key whose recency an operation refreshes (None: no access) *)
Definition touched (c : cont) (p : op) : option key :=
  match p with
  | Get k | MGet k | Contains k | Pop k => match c_find k c with Some _ => Some k | None => None end
  | Set_ k _ | SetDefault k _ | GetOrCreate k _ => Some k
  | Del _ | Len | Clear | Keys => None
  end.

Definition tick (ts : stamps) (clock : nat) (c : cont) (p : op) : stamps :=
  match touched c p with Some k => upd ts k clock | None => ts end.

Definition older (ts : stamps) (a b : key) : Prop := ts a < ts b.
Definition GInv (ts : stamps) (clock : nat) (ks : list key) : Prop :=
  StronglySorted (older ts) ks /\ Forall (fun k => ts k < clock) ks.

Lemma upd_same ts k t : upd ts k t k = t.
Proof. unfold upd. rewrite N.eqb_refl. reflexivity. Qed.
Lemma upd_other ts k t x : x <> k -> upd ts k t x = ts x.
Proof. unfold upd. intros H. destruct (N.eqb_spec x k); congruence. Qed.

Lemma GInv_weaken ts clock ks : GInv ts clock ks -> GInv ts (S clock) ks.
Proof.
  intros [H1 H2]. split; [assumption|]. eapply Forall_impl; [|exact H2]. simpl. intros; lia.
Qed.

Lemma sorted_ext ts ts' ks :
  (forall k, In k ks -> ts' k = ts k) -> StronglySorted (older ts) ks -> StronglySorted (older ts') ks.
Proof.
  induction ks as [|a ks IH]; intros He Hs; [constructor|].
  inversion Hs; subst. constructor.
  - apply IH; [intros; apply He; right; assumption | assumption].
  - rewrite Forall_forall in *. intros x Hx. unfold older in *.
    rewrite (He a (or_introl eq_refl)), (He x (or_intror Hx)). auto.
Qed.

Lemma GInv_ext ts ts' clock ks :
  (forall k, In k ks -> ts' k = ts k) -> GInv ts clock ks -> GInv ts' clock ks.
Proof.
  intros He [H1 H2]. split; [eapply sorted_ext; eauto|].
  rewrite Forall_forall in *. intros x Hx. rewrite (He x Hx). auto.
Qed.

Lemma GInv_remove ts clock k c : GInv ts clock (keys c) -> GInv ts clock (keys (c_remove k c)).
Proof.
  induction c as [|[k' v] c IH]; simpl; intros H; [assumption|].
  destruct H as [H1 H2]. inversion H1; subst. inversion H2; subst.
  destruct (k =? k')%N; [split; assumption|].
  destruct (IH (conj H3 H6)) as [I1 I2].
  simpl. split; constructor; try assumption.
  rewrite Forall_forall in *. intros x Hx. apply H4. eapply keys_remove_incl; eassumption.
Qed.

(* move-to-end / insert-at-end with the current clock as stamp *)
Lemma GInv_snoc ts clock ks k :
  ~ In k ks -> GInv ts clock ks -> GInv (upd ts k clock) (S clock) (ks ++ [k]).
Proof.
  intros Hni [H1 H2].
  assert (He : forall x, In x ks -> upd ts k clock x = ts x)
    by (intros x Hx; apply upd_other; congruence).
  split.
  - induction ks as [|a ks IH]; simpl.
    + repeat constructor.
    + inversion H1; subst. inversion H2; subst. constructor.
      * apply IH; try assumption; [simpl in Hni; tauto | intros; apply He; right; assumption].
      * rewrite Forall_forall in *. intros x Hx. unfold older.
        rewrite (He a (or_introl eq_refl)).
        apply in_app_iff in Hx as [Hx|[<-|[]]].
        -- rewrite (He x (or_intror Hx)). apply H4. assumption.
        -- rewrite upd_same. assumption.
  - apply Forall_app. split.
    + rewrite Forall_forall in *. intros x Hx. rewrite (He x Hx). specialize (H2 x Hx). lia.
    + constructor; [rewrite upd_same; lia | constructor].
Qed.

Lemma GInv_tail ts clock a ks : GInv ts clock (a :: ks) -> GInv ts clock ks.
Proof. intros [H1 H2]. inversion H1; inversion H2; subst. split; assumption. Qed.

Lemma keys_getitem k c v c' :
  getitem k c = Some (v, c') -> keys c' = keys (c_remove k c) ++ [k].
Proof.
  unfold getitem. destruct (c_find k c); [|discriminate]. intros [= <- <-].
  rewrite keys_app. reflexivity.
Qed.

Lemma GInv_getitem m ts clock k c v c' :
  Inv m c -> GInv ts clock (keys c) -> getitem k c = Some (v, c') ->
  GInv (upd ts k clock) (S clock) (keys c').
Proof.
  intros [Hn _] G E. rewrite (keys_getitem _ _ _ _ E).
  apply GInv_snoc; [apply remove_not_in; assumption | apply GInv_remove; assumption].
Qed.

Lemma GInv_setitem m ts clock k v c c' d :
  Inv m c -> GInv ts clock (keys c) -> setitem m k v c = (c', d) ->
  GInv (upd ts k clock) (S clock) (keys c').
Proof.
  intros [Hn _] G. unfold setitem. destruct (c_find k c) eqn:F.
  - intros [= <- <-]. rewrite keys_app. simpl.
    apply GInv_snoc; [apply remove_not_in; assumption | apply GInv_remove; assumption].
  - apply c_find_none in F.
    assert (G' : GInv (upd ts k clock) (S clock) (keys (c ++ [(k, v)])))
      by (rewrite keys_app; simpl; apply GInv_snoc; assumption).
    destruct (m <? length (c ++ [(k, v)])).
    + destruct (c ++ [(k, v)]) as [|[k1 v1] r]; intros [= <- <-]; [assumption|].
      simpl in G'. eapply GInv_tail; eassumption.
    + intros [= <- <-]. assumption.
Qed.

Lemma GInv_delitem ts clock k c c' d :
  GInv ts clock (keys c) -> delitem k c = Some (c', d) -> GInv ts clock (keys c').
Proof.
  unfold delitem. destruct (c_find k c); [|discriminate]. intros G [= <- <-].
  apply GInv_remove. assumption.
Qed.

Lemma getitem_touch k c v c' : getitem k c = Some (v, c') -> c_find k c = Some v.
Proof. unfold getitem. destruct (c_find k c); [intros [= <- _]; reflexivity | discriminate]. Qed.

Lemma step_order m ts clock c p :
  Inv m c -> GInv ts clock (keys c) ->
  GInv (tick ts clock c p) (S clock) (keys (fst (fst (step m c p)))).
Proof.
  intros HI G. unfold tick. destruct p; simpl.
  - destruct (getitem k c) as [[v c']|] eqn:E; simpl.
    + rewrite (getitem_touch _ _ _ _ E). eapply GInv_getitem; eauto.
    + apply getitem_find in E. rewrite E. apply GInv_weaken. assumption.
  - destruct (setitem m k v c) as [c' d] eqn:E. simpl. eapply GInv_setitem; eauto.
  - destruct (delitem k c) as [[c' d]|] eqn:E; simpl; apply GInv_weaken;
      [eapply GInv_delitem; eauto | assumption].
  - apply GInv_weaken. assumption.
  - split; constructor.
  - apply GInv_weaken. assumption.
  - destruct (getitem k c) as [[v c']|] eqn:E; simpl.
    + rewrite (getitem_touch _ _ _ _ E). eapply GInv_getitem; eauto.
    + apply getitem_find in E. rewrite E. apply GInv_weaken. assumption.
  - destruct (getitem k c) as [[v c']|] eqn:E; simpl.
    + rewrite (getitem_touch _ _ _ _ E). eapply GInv_getitem; eauto.
    + apply getitem_find in E. rewrite E. apply GInv_weaken. assumption.
  - destruct (getitem k c) as [[v c']|] eqn:E; simpl.
    + rewrite (getitem_touch _ _ _ _ E).
      assert (G' : GInv (upd ts k clock) (S clock) (keys c')) by (eapply GInv_getitem; eauto).
      destruct (delitem k c') as [[c'' d]|] eqn:E2; simpl; [eapply GInv_delitem; eauto | assumption].
    + apply getitem_find in E. rewrite E. apply GInv_weaken. assumption.
  - destruct (getitem k c) as [[x c']|] eqn:E; simpl; [eapply GInv_getitem; eauto|].
    destruct (setitem m k v c) as [c' d] eqn:E2. simpl. eapply GInv_setitem; eauto.
  - destruct (getitem k c) as [[x c']|] eqn:E; simpl; [eapply GInv_getitem; eauto|].
    destruct (setitem m k fresh c) as [c' d] eqn:E2. simpl. eapply GInv_setitem; eauto.
Qed.

(* ghost run: stamps after a whole operation sequence *)
Fixpoint run_stamps (m : nat) (ops : list op) (ts : stamps) (clock : nat) (c : cont) : stamps * nat * cont :=
  match ops with
  | [] => (ts, clock, c)
  | p :: r => run_stamps m r (tick ts clock c p) (S clock) (fst (fst (step m c p)))
  end.

Lemma run_stamps_cont m ops ts clock c :
  snd (run_stamps m ops ts clock c) = fst (fst (run m ops c)).
Proof.
  revert ts clock c. induction ops as [|p ops IH]; simpl; intros; [reflexivity|].
  rewrite IH. destruct (step m c p) as [[c' x] d]. simpl.
  destruct (run m ops c') as [[c'' xs] ds]. reflexivity.
Qed.

Theorem run_order m ops ts clock c :
  Inv m c -> GInv ts clock (keys c) ->
  let '(ts', clock', c') := run_stamps m ops ts clock c in GInv ts' clock' (keys c').
Proof.
  revert ts clock c. induction ops as [|p ops IH]; simpl; intros ts clock c HI G; [assumption|].
  apply IH; [apply Inv_step; assumption | apply step_order; assumption].
Qed.

(* the entry evicted by an insertion is strictly older than everything kept *)
Theorem evicts_least_recent m ts clock k v c c' ev :
  Inv m c -> GInv ts clock (keys c) -> c_find k c = None ->
  setitem m k v c = (c', [ev]) ->
  exists ke, c ++ [(k, v)] = (ke, ev) :: c' /\
             forall k', In k' (keys c') -> upd ts k clock ke < upd ts k clock k'.
Proof.
  intros [Hn _] G F. unfold setitem. rewrite F.
  apply c_find_none in F.
  assert (G' : GInv (upd ts k clock) (S clock) (keys (c ++ [(k, v)])))
    by (rewrite keys_app; simpl; apply GInv_snoc; assumption).
  destruct (m <? length (c ++ [(k, v)])); [|discriminate].
  destruct (c ++ [(k, v)]) as [|[k1 v1] r]; [discriminate|].
  intros [= <- <-]. exists k1. split; [reflexivity|].
  destruct G' as [G1 _]. simpl in G1. inversion G1; subst.
  rewrite Forall_forall in H2. exact H2.
Qed.
