(* C08: what the name matcher must accept and must reject; fingerprint pins. *)
From Coq Require Import String List NArith Bool Arith Lia.
From V Require Import lib.PyStr model.HostMatch.
Import ListNotations.
Local Open Scope N_scope.

(* ---------- '*' and lower-casing ---------- *)
Lemma lower_star c : (lower_cp c =? STAR) = (c =? STAR).
Proof.
  unfold lower_cp, STAR. destruct ((65 <=? c) && (c <=? 90)) eqn:E; [|reflexivity].
  apply andb_true_iff in E as [E1 E2]. apply N.leb_le in E1, E2.
  destruct (N.eqb_spec (c + 32) 42), (N.eqb_spec c 42); try reflexivity; lia.
Qed.

Lemma count_star_lower s : count_star (ascii_lower s) = count_star s.
Proof.
  unfold count_star, ascii_lower. induction s as [|c s IH]; simpl; [reflexivity|].
  rewrite lower_star. destruct (c =? STAR); simpl; rewrite IH; reflexivity.
Qed.

Lemma ieq_count_star a b : ieq a b = true -> count_star a = count_star b.
Proof.
  unfold ieq. intros H. apply str_eqb_eq in H.
  rewrite <- (count_star_lower a), <- (count_star_lower b), H. reflexivity.
Qed.

Lemma count_star_app a b : count_star (a ++ b) = (count_star a + count_star b)%nat.
Proof. unfold count_star. rewrite filter_app, app_length. reflexivity. Qed.

Lemma count_star_rev a : count_star (rev a) = count_star a.
Proof.
  induction a as [|c a IH]; simpl; [reflexivity|].
  rewrite count_star_app, IH. unfold count_star. simpl. destruct (c =? STAR); simpl; lia.
Qed.

Lemma split_go_labels s cur l :
  In l (split_dot_go s cur) -> (count_star l <= count_star s + count_star cur)%nat.
Proof.
  revert cur. induction s as [|c s IH]; simpl; intros cur H.
  - destruct H as [<-|[]]. rewrite count_star_rev. lia.
  - destruct (c =? DOT) eqn:E.
    + destruct H as [<-|H].
      * rewrite count_star_rev. lia.
      * apply IH in H. unfold count_star in *. simpl in *. destruct (c =? STAR); simpl; lia.
    + apply IH in H. unfold count_star in *. simpl in *. destruct (c =? STAR); simpl in *; lia.
Qed.

Lemma label_star_free s l : count_star s = 0%nat -> In l (split_dot s) -> count_star l = 0%nat.
Proof.
  intros Hs Hin. apply split_go_labels in Hin. unfold count_star in Hin at 3. simpl in Hin. lia.
Qed.

Lemma all_ieq_star a b l :
  all_ieq a b = true -> In l a -> (0 < count_star l)%nat -> exists l', In l' b /\ (0 < count_star l')%nat.
Proof.
  revert b. induction a as [|x a IH]; intros [|y b]; simpl; try discriminate; [tauto|].
  intros H. apply andb_true_iff in H as [H1 H2]. intros [<-|Hin] Hl.
  - exists y. split; [auto|]. rewrite <- (ieq_count_star _ _ H1). assumption.
  - destruct (IH b H2 Hin Hl) as (l' & Hin' & Hl'). eauto.
Qed.

Lemma all_ieq_length a b : all_ieq a b = true -> length a = length b.
Proof.
  revert b. induction a as [|x a IH]; intros [|y b]; simpl; try discriminate; [reflexivity|].
  intros H. apply andb_true_iff in H as [_ H]. f_equal. auto.
Qed.

Lemma split_go_nonnil s cur : split_dot_go s cur <> [].
Proof.
  revert cur. induction s as [|c s IH]; simpl; intros cur; [discriminate|].
  destruct (c =? DOT); [discriminate | apply IH].
Qed.

(* ---------- must accept ---------- *)
Definition leftmost_of (dn : str) : str := hd [] (split_dot dn).

Theorem must_accept_exact dn host :
  dn <> [] -> count_star (leftmost_of dn) = 0%nat -> ieq dn host = true ->
  dnsname_match dn host = DMatch true.
Proof.
  intros Hne Hw He. unfold dnsname_match, leftmost_of in *.
  destruct dn as [|c dn']; [congruence|].
  destruct (split_dot (c :: dn')) as [|lm rem] eqn:Es.
  - exfalso. exact (split_go_nonnil _ _ Es).
  - simpl in Hw. rewrite Hw. simpl. rewrite He. reflexivity.
Qed.

Theorem must_accept_wildcard dn host rest h0 hrest :
  split_dot dn = [STAR] :: rest -> split_dot host = h0 :: hrest ->
  h0 <> [] -> all_ieq rest hrest = true ->
  dnsname_match dn host = DMatch true.
Proof.
  intros Hd Hh Hne Ha. unfold dnsname_match.
  destruct dn as [|c dn']; [discriminate|].
  rewrite Hd, Hh. cbn [count_star filter length]. simpl.
  rewrite Ha. destruct h0; [congruence | reflexivity].
Qed.

(* ---------- must reject (the requested host is a real name: it contains no '*') ---------- *)
Theorem reject_many_wildcards dn host :
  dn <> [] -> (1 < count_star (leftmost_of dn))%nat -> dnsname_match dn host = DTooManyWildcards.
Proof.
  intros Hne Hw. unfold dnsname_match, leftmost_of in *. destruct dn as [|c dn']; [congruence|].
  destruct (split_dot (c :: dn')) as [|lm rem]; simpl in Hw; [unfold count_star in Hw; simpl in Hw; lia|].
  apply Nat.ltb_lt in Hw. rewrite Hw. reflexivity.
Qed.

Lemma dn_star_total dn lm rem l :
  split_dot dn = lm :: rem -> In l rem -> (0 < count_star l)%nat -> (0 < count_star dn)%nat.
Proof.
  intros Hs Hin Hl. assert (H : In l (split_dot dn)) by (rewrite Hs; right; assumption).
  apply split_go_labels in H. unfold count_star in H at 3. simpl in H. lia.
Qed.

Theorem reject_wildcard_not_leftmost dn host lm rem l :
  count_star host = 0%nat ->
  split_dot dn = lm :: rem -> In l rem -> (0 < count_star l)%nat ->
  dnsname_match dn host <> DMatch true.
Proof.
  intros Hh Hs Hin Hl. unfold dnsname_match. destruct dn as [|c dn']; [discriminate|].
  rewrite Hs.
  assert (Hdn : (0 < count_star (c :: dn'))%nat) by (eapply dn_star_total; eauto).
  assert (Hieq : ieq (c :: dn') host = true -> False).
  { intros E. apply ieq_count_star in E. lia. }
  assert (Hall : forall hrest, (forall x, In x hrest -> count_star x = 0%nat) -> all_ieq rem hrest = true -> False).
  { intros hrest Hfree E. destruct (all_ieq_star _ _ _ E Hin Hl) as (l' & Hin' & Hl'). rewrite (Hfree _ Hin') in Hl'. lia. }
  destruct (Nat.ltb 1 (count_star lm)); [discriminate|].
  destruct (Nat.eqb (count_star lm) 0).
  - intros [= E]. auto.
  - destruct (split_dot host) as [|h0 hrest] eqn:Eh; [discriminate|].
    assert (Hfree : forall x, In x hrest -> count_star x = 0%nat).
    { intros x Hx. apply (label_star_free host); [assumption | rewrite Eh; right; assumption]. }
    destruct (str_eqb lm [STAR]).
    + intros [= E]. apply andb_true_iff in E as [_ E]. eauto.
    + destruct (starts_with XN (ascii_lower lm) || starts_with XN (ascii_lower host)).
      * intros [= E]. auto.
      * intros [= E]. apply andb_true_iff in E as [_ E]. eauto.
Qed.

(* a whole-label wildcard covers exactly one non-empty label: same number of labels *)
Theorem wildcard_one_label dn host rest :
  split_dot dn = [STAR] :: rest -> dnsname_match dn host = DMatch true ->
  exists h0 hrest, split_dot host = h0 :: hrest /\ h0 <> [] /\ ~ In DOT h0 /\
                   length hrest = length rest /\ all_ieq rest hrest = true.
Proof.
  intros Hd. unfold dnsname_match. destruct dn as [|c dn']; [discriminate|]. rewrite Hd.
  cbn [count_star filter length]. simpl.
  destruct (split_dot host) as [|h0 hrest] eqn:Eh; [discriminate|].
  intros [= E]. apply andb_true_iff in E as [E1 E2].
  exists h0, hrest. split; [reflexivity|]. split; [destruct h0; [discriminate | discriminate]|].
  split.
  - (* labels produced by split contain no dot *)
    assert (G : forall s cur l, In l (split_dot_go s cur) -> ~ In DOT cur -> ~ In DOT l).
    { induction s as [|x s IH]; simpl; intros cur l Hin Hc.
      - destruct Hin as [<-|[]]. rewrite <- in_rev. assumption.
      - destruct (x =? DOT) eqn:Ex.
        + destruct Hin as [<-|Hin]; [rewrite <- in_rev; assumption | apply (IH [] l Hin); simpl; tauto].
        + apply (IH (x :: cur) l Hin). simpl. intros [->|H]; [rewrite N.eqb_refl in Ex; discriminate | tauto]. }
    apply (G host [] h0); [unfold split_dot in Eh; rewrite Eh; left; reflexivity | simpl; tauto].
  - split; [symmetry; apply all_ieq_length; assumption | assumption].
Qed.

(* wildcards inside an IDN A-label are not wildcards *)
Theorem reject_wildcard_in_alabel dn host lm rem :
  count_star host = 0%nat ->
  split_dot dn = lm :: rem -> starts_with XN (ascii_lower lm) = true -> (0 < count_star lm)%nat ->
  dnsname_match dn host <> DMatch true.
Proof.
  intros Hh Hs Hx Hw. unfold dnsname_match. destruct dn as [|c dn']; [discriminate|]. rewrite Hs.
  assert (Hdn : (0 < count_star (c :: dn'))%nat).
  { assert (H : In lm (split_dot (c :: dn'))) by (rewrite Hs; left; reflexivity).
    apply split_go_labels in H. unfold count_star in H at 3. simpl in H. lia. }
  assert (Hieq : ieq (c :: dn') host = true -> False) by (intros E; apply ieq_count_star in E; lia).
  destruct (Nat.ltb 1 (count_star lm)); [discriminate|].
  destruct (Nat.eqb (count_star lm) 0) eqn:E0; [apply Nat.eqb_eq in E0; lia|].
  destruct (split_dot host) as [|h0 hrest]; [discriminate|].
  destruct (str_eqb lm [STAR]) eqn:Es.
  - apply str_eqb_eq in Es. subst lm. discriminate.
  - rewrite Hx. simpl. intros [= E]. auto.
Qed.

(* ---------- the SAN loop ---------- *)
Section WithOracles.
Variable ip_parse : str -> option (list N).

Lemma san_loop_accept san host hip seen :
  san_loop ip_parse san host hip seen = inl Accept ->
  (hip = None /\ exists v, In (SDns v) san /\ dnsname_match v host = DMatch true) \/
  (exists p v, hip = Some p /\ In (SIp v) san /\ ip_parse (rstrip v) = Some p).
Proof.
  revert seen. induction san as [|e san IH]; simpl; intros seen; [discriminate|].
  destruct e as [v|v|].
  - destruct hip as [p|].
    + intros H. destruct (IH _ H) as [[? _]|(p' & v' & ? & ? & ?)]; [discriminate | right; eauto 6].
    + destruct (dnsname_match v host) as [[|]|] eqn:E.
      * intros _. left. split; [reflexivity | eauto].
      * intros H. destruct (IH _ H) as [[_ (v' & ? & ?)]|(p' & v' & ? & _)]; [left; eauto | discriminate].
      * discriminate.
  - destruct hip as [hp|].
    + destruct (ip_parse (rstrip v)) as [p|] eqn:E; [|discriminate].
      destruct (packed_eqb p hp) eqn:Ep.
      * intros _. apply str_eqb_eq in Ep. subst p. right. eauto 6.
      * intros H. destruct (IH _ H) as [[? _]|(p' & v' & ? & ? & ?)]; [discriminate | right; eauto 6].
    + intros H. destruct (IH _ H) as [[_ (v' & ? & ?)]|(p' & v' & ? & _)]; [left; eauto | discriminate].
  - intros H. destruct (IH _ H) as [[? (v' & ? & ?)]|(p' & v' & ? & ? & ?)]; [left; eauto | right; eauto 6].
Qed.

Lemma san_loop_seen san host hip seen n :
  san_loop ip_parse san host hip seen = inr n ->
  (n = seen)%nat -> forall e, In e san -> e = SOther.
Proof.
  revert seen. induction san as [|e san IH]; simpl; intros seen H Hn x Hx; [contradiction|].
  assert (Mono : forall s k m, san_loop ip_parse s host hip k = inr m -> (k <= m)%nat).
  { induction s as [|y s IHs]; simpl; intros k m Hk; [injection Hk as <-; lia|].
    destruct y as [v|v|]; [ destruct hip; [|destruct (dnsname_match v host) as [[|]|]; try discriminate]
                          | destruct hip; [destruct (ip_parse (rstrip v)); [destruct (packed_eqb _ _)|]; try discriminate|]
                          | ]; apply IHs in Hk; lia. }
  destruct e as [v|v|].
  - exfalso. destruct hip; [|destruct (dnsname_match v host) as [[|]|]; try discriminate];
      apply Mono in H; lia.
  - exfalso. destruct hip; [destruct (ip_parse (rstrip v)); [destruct (packed_eqb _ _)|]; try discriminate|];
      apply Mono in H; lia.
  - destruct Hx as [<-|Hx]; [reflexivity | eapply IH; eauto].
Qed.

Lemma cn_loop_accept cns host :
  cn_loop cns host = Accept -> exists v, In v cns /\ dnsname_match v host = DMatch true.
Proof.
  induction cns as [|v cns IH]; simpl; [discriminate|].
  destruct (dnsname_match v host) as [[|]|] eqn:E; try discriminate.
  - intros _. eauto.
  - intros H. destruct (IH H) as (v' & ? & ?). eauto.
Qed.

(* soundness: every acceptance is justified by the rules *)
Theorem match_accept_sound san cns host cn :
  match_hostname ip_parse san cns host cn = Accept ->
  (host_ip_of ip_parse host = None /\ exists v, In (SDns v) san /\ dnsname_match v host = DMatch true) \/
  (exists p v, host_ip_of ip_parse host = Some p /\ In (SIp v) san /\ ip_parse (rstrip v) = Some p) \/
  (cn = true /\ host_ip_of ip_parse host = None /\ (forall e, In e san -> e = SOther) /\
   exists v, In v cns /\ dnsname_match v host = DMatch true).
Proof.
  unfold match_hostname. destruct (san_loop ip_parse san host (host_ip_of ip_parse host) 0) as [r|n] eqn:E.
  - intros ->. destruct (san_loop_accept _ _ _ _ E) as [H|H]; [left | right; left]; assumption.
  - destruct cn; simpl; [|discriminate].
    destruct (host_ip_of ip_parse host) eqn:Eh; simpl; [discriminate|].
    destruct (Nat.eqb n 0) eqn:En; [|discriminate]. apply Nat.eqb_eq in En.
    intros H. right. right. split; [reflexivity|]. split; [reflexivity|].
    split; [eapply san_loop_seen; eauto | apply cn_loop_accept; assumption].
Qed.

(* completeness: a matching DNS entry is found unless an earlier entry aborts the loop *)
Theorem match_accept_complete_dns pre v post cns host cn :
  host_ip_of ip_parse host = None ->
  dnsname_match v host = DMatch true ->
  (forall w, In (SDns w) pre -> dnsname_match w host <> DTooManyWildcards) ->
  match_hostname ip_parse (pre ++ SDns v :: post) cns host cn = Accept.
Proof.
  intros Hip Hm Hpre. unfold match_hostname. rewrite Hip.
  assert (G : forall seen, san_loop ip_parse (pre ++ SDns v :: post) host None seen = inl Accept).
  { induction pre as [|e pre IH]; simpl; intros seen.
    - rewrite Hm. reflexivity.
    - destruct e as [w|w|].
      + destruct (dnsname_match w host) as [[|]|] eqn:E; [reflexivity | apply IH; intros; apply Hpre; right; assumption|].
        exfalso. apply (Hpre w); [left; reflexivity | assumption].
      + apply IH. intros; apply Hpre; right; assumption.
      + apply IH. intros; apply Hpre; right; assumption. }
  rewrite G. reflexivity.
Qed.

Theorem match_accept_complete_ip pre v post cns host cn p :
  host_ip_of ip_parse host = Some p ->
  ip_parse (rstrip v) = Some p ->
  (forall w, In (SIp w) pre -> ip_parse (rstrip w) <> None) ->
  match_hostname ip_parse (pre ++ SIp v :: post) cns host cn = Accept.
Proof.
  intros Hip Hm Hpre. unfold match_hostname. rewrite Hip.
  assert (G : forall seen, san_loop ip_parse (pre ++ SIp v :: post) host (Some p) seen = inl Accept).
  { induction pre as [|e pre IH]; simpl; intros seen.
    - rewrite Hm. unfold packed_eqb. rewrite str_eqb_refl. reflexivity.
    - destruct e as [w|w|].
      + apply IH. intros; apply Hpre; right; assumption.
      + destruct (ip_parse (rstrip w)) as [q|] eqn:E.
        * destruct (packed_eqb q p); [reflexivity | apply IH; intros; apply Hpre; right; assumption].
        * exfalso. apply (Hpre w); [left; reflexivity | assumption].
      + apply IH. intros; apply Hpre; right; assumption. }
  rewrite G. reflexivity.
Qed.
End WithOracles.

(* ---------- fingerprints ---------- *)
Theorem fingerprint_iff table fp :
  assert_fingerprint table fp = FAccept <->
  exists n dig, find (fun e => Nat.eqb (fst e) (length (strip_colons_lower fp))) table = Some (n, Some dig) /\
                unhexlify (strip_colons_lower fp) = Some dig.
Proof.
  unfold assert_fingerprint. split.
  - destruct (find _ table) as [[n [dig|]]|] eqn:E; try discriminate.
    destruct (unhexlify (strip_colons_lower fp)) as [bytes|] eqn:U; try discriminate.
    destruct (str_eqb bytes dig) eqn:B; try discriminate.
    apply str_eqb_eq in B. subst. intros _. eauto.
  - intros (n & dig & -> & ->). rewrite str_eqb_refl. reflexivity.
Qed.

Theorem other_length_rejected table fp :
  ~ In (length (strip_colons_lower fp)) (map fst table) -> assert_fingerprint table fp = FRejectSSL.
Proof.
  intros H. unfold assert_fingerprint.
  destruct (find _ table) as [[n d]|] eqn:E; [|reflexivity].
  exfalso. apply find_some in E as [Hin He]. simpl in He. apply Nat.eqb_eq in He.
  apply H. rewrite <- He. change n with (fst (n, d)). apply in_map. assumption.
Qed.

Theorem pin_spelling_invariant table fp1 fp2 :
  strip_colons_lower fp1 = strip_colons_lower fp2 ->
  assert_fingerprint table fp1 = assert_fingerprint table fp2.
Proof. intros H. unfold assert_fingerprint. rewrite H. reflexivity. Qed.

Lemma lower_upper_cp c : lower_cp (upper_cp c) = lower_cp c.
Proof.
  unfold lower_cp, upper_cp.
  destruct ((97 <=? c) && (c <=? 122)) eqn:E1.
  - apply andb_true_iff in E1 as [A B]. apply N.leb_le in A, B.
    replace ((65 <=? c - 32) && (c - 32 <=? 90)) with true
      by (symmetry; apply andb_true_iff; split; apply N.leb_le; lia).
    replace ((65 <=? c) && (c <=? 90)) with false
      by (symmetry; apply andb_false_iff; right; apply N.leb_gt; lia).
    lia.
  - reflexivity.
Qed.

Lemma upper_colon c : (upper_cp c =? COLON) = (c =? COLON).
Proof.
  unfold upper_cp, COLON. destruct ((97 <=? c) && (c <=? 122)) eqn:E; [|reflexivity].
  apply andb_true_iff in E as [A B]. apply N.leb_le in A, B.
  destruct (N.eqb_spec (c - 32) 58), (N.eqb_spec c 58); try reflexivity; lia.
Qed.

Theorem pin_case_invariant fp : strip_colons_lower (ascii_upper fp) = strip_colons_lower fp.
Proof.
  unfold strip_colons_lower, ascii_upper, ascii_lower.
  induction fp as [|c fp IH]; simpl; [reflexivity|].
  rewrite upper_colon. destruct (c =? COLON); simpl; [assumption|].
  rewrite lower_upper_cp. f_equal. assumption.
Qed.

Theorem pin_colon_invariant a b : strip_colons_lower (a ++ COLON :: b) = strip_colons_lower (a ++ b).
Proof.
  unfold strip_colons_lower. rewrite !filter_app. simpl. reflexivity.
Qed.
