(* Proofs for C11 (model/Framing.v): the chunked framing reads back as the body, and re-sends are identical. *)
From Coq Require Import String List NArith ZArith Arith Bool Lia ZifyBool ZifyN ZifyNat.
Ltac Zify.zify_post_hook ::= Z.to_euclidean_division_equations.
From V Require Import lib.PyStr lib.Utf8 model.Framing.
Import ListNotations.
Local Open Scope N_scope.
Arguments N.add : simpl never.
Arguments N.mul : simpl never.
Arguments N.div : simpl never.
Arguments N.modulo : simpl never.

(* ---------- hexadecimal ---------- *)
Definition hstep (v d : N) : N := 16 * v + d.

Lemma hexval1_hexchar d : d < 16 -> hexval1 (hexchar d) = Some d /\ (hexchar d =? 13) = false.
Proof.
  intros H. unfold hexval1, hexchar. destruct (d <? 10) eqn:E.
  - apply N.ltb_lt in E. replace ((48 <=? 48 + d) && (48 + d <=? 57)) with true by (symmetry; apply andb_true_iff; split; apply N.leb_le; lia).
    split; [f_equal; lia|apply N.eqb_neq; lia].
  - apply N.ltb_ge in E. replace ((48 <=? 87 + d) && (87 + d <=? 57)) with false by (symmetry; apply andb_false_iff; right; apply N.leb_gt; lia).
    replace ((97 <=? 87 + d) && (87 + d <=? 102)) with true by (symmetry; apply andb_true_iff; split; apply N.leb_le; lia).
    split; [f_equal; lia|apply N.eqb_neq; lia].
Qed.

Lemma size_line_hex ds : forall acc seen r,
  Forall (fun d => d < 16) ds -> (seen = true \/ ds <> []) ->
  size_line (map hexchar ds ++ 13 :: 10 :: r) acc seen = Some (fold_left hstep ds acc, r).
Proof.
  induction ds as [|d ds IH]; intros acc seen r Hall Hs.
  - destruct Hs as [->|Hs]; [|contradiction]. reflexivity.
  - apply Forall_cons_iff in Hall as [Hd Hall].
    destruct (hexval1_hexchar d Hd) as [Hv Hne].
    cbn [map app size_line fold_left]. rewrite Hne, Hv. apply IH; [exact Hall|left; reflexivity].
Qed.

Definition pow2 (f : nat) : N := 2 ^ N.of_nat f.
Lemma pow2_S f : pow2 (S f) = 2 * pow2 f.
Proof. unfold pow2. rewrite Nat2N.inj_succ, N.pow_succ_r'. reflexivity. Qed.

Lemma hexp_spec f : forall n, n < pow2 f ->
  fold_left hstep (hexp f n) 0 = n /\ Forall (fun d => d < 16) (hexp f n).
Proof.
  induction f as [|f IH]; intros n Hn.
  - unfold pow2 in Hn. cbn in Hn. assert (n = 0) by lia. subst. split; [reflexivity|constructor].
  - cbn [hexp]. destruct (n <? 16) eqn:E.
    + apply N.ltb_lt in E. split; [cbn [fold_left]; unfold hstep; lia|constructor; [exact E|constructor]].
    + apply N.ltb_ge in E. rewrite pow2_S in Hn.
      assert (Hq : n / 16 < pow2 f) by (set (p := pow2 f) in *; lia).
      destruct (IH _ Hq) as [Hv Hall]. split.
      * rewrite fold_left_app. cbn [fold_left]. rewrite Hv. unfold hstep. lia.
      * apply Forall_app. split; [exact Hall|constructor; [lia|constructor]].
Qed.

Lemma hexp_nonempty f n : hexp (S f) n <> [].
Proof. cbn [hexp]. destruct (n <? 16); [discriminate|]. intros H. apply app_eq_nil in H as [_ H]. discriminate. Qed.

Lemma size_line_to_hex n r : size_line (to_hex n ++ CRLF ++ r) 0 false = Some (n, r).
Proof.
  unfold to_hex, CRLF. cbn [app].
  assert (Hn : n < pow2 (S (N.to_nat (N.size n)))).
  { unfold pow2. rewrite Nat2N.inj_succ, N2Nat.id, N.pow_succ_r'. pose proof (N.size_gt n). lia. }
  destruct (hexp_spec _ _ Hn) as [Hv Hall].
  rewrite size_line_hex; [rewrite Hv; reflexivity|exact Hall|right; apply hexp_nonempty].
Qed.

(* ---------- one chunk ---------- *)
Lemma strip_crlf_app r : strip_crlf (CRLF ++ r) = Some r.
Proof. reflexivity. Qed.

Lemma decode_one f enc rest :
  enc <> [] ->
  decode_chunked (S f) (to_hex (N.of_nat (length enc)) ++ CRLF ++ enc ++ CRLF ++ rest)
  = match decode_chunked f rest with Some x => Some (enc ++ x) | None => None end.
Proof.
  intros Hne. cbn [decode_chunked]. rewrite size_line_to_hex.
  assert (Hlen : (N.of_nat (length enc) =? 0) = false) by (apply N.eqb_neq; destruct enc; [contradiction|cbn [length]; lia]).
  rewrite Hlen, Nat2N.id.
  assert (Hl : Nat.ltb (length (enc ++ CRLF ++ rest)) (length enc + 2) = false)
    by (apply Nat.ltb_ge; rewrite !app_length; cbn [length CRLF]; lia).
  rewrite Hl.
  rewrite skipn_app, skipn_all, Nat.sub_diag. cbn [skipn app]. rewrite strip_crlf_app.
  rewrite firstn_app, firstn_all, Nat.sub_diag. cbn [firstn]. rewrite app_nil_r. reflexivity.
Qed.

Lemma decode_last f : decode_chunked (S f) last_chunk = Some [].
Proof. reflexivity. Qed.

(* ---------- all chunks ---------- *)
Fixpoint cnt (cs : list chunk) : nat :=
  match cs with [] => O | c :: r => if falsy c then cnt r else S (cnt r) end.

Lemma utf8_cp_nonempty c bs : utf8_cp c = Some bs -> bs <> [].
Proof.
  unfold utf8_cp. destruct (c <? 128); [intros H; inversion H; discriminate|].
  destruct (c <? 2048); [intros H; inversion H; discriminate|].
  destruct ((55296 <=? c) && (c <=? 57343)); [discriminate|].
  destruct (c <? 65536); [intros H; inversion H; discriminate|].
  destruct (c <? 1114112); [intros H; inversion H; discriminate|discriminate].
Qed.

Lemma chunk_bytes_falsy c enc : chunk_bytes c = Some enc -> (falsy c = true -> enc = []) /\ (falsy c = false -> enc <> []).
Proof.
  destruct c as [b|s|k b]; cbn [chunk_bytes falsy].
  - intros H; inversion H; subst. destruct enc; split; intros; congruence.
  - destruct s as [|c s]; cbn [utf8].
    + intros H; inversion H; split; intros; congruence.
    + destruct (utf8_cp c) as [a|] eqn:Ea; [|discriminate]. destruct (utf8 s); [|discriminate].
      intros H; inversion H; subst. split; [discriminate|]. intros _ Hnil. apply app_eq_nil in Hnil as [Hnil _].
      exact (utf8_cp_nonempty _ _ Ea Hnil).
  - intros H; inversion H; subst. destruct enc; split; intros; congruence.
Qed.

Lemma chunk_len_nbytes c enc : chunk_len true c enc = length enc.
Proof. destruct c; reflexivity. Qed.

Lemma send_chunks_chunked cs : forall payload bytes f,
  send_chunks true true cs = Some payload -> concat_opt (map chunk_bytes cs) = Some bytes ->
  (cnt cs < f)%nat -> decode_chunked f (payload ++ last_chunk) = Some bytes.
Proof.
  induction cs as [|c cs IH]; intros payload bytes f Hs Hb Hf.
  - inversion Hs; inversion Hb; subst. destruct f; [lia|]. apply decode_last.
  - cbn [send_chunks map concat_opt cnt] in *.
    destruct (chunk_bytes c) as [enc|] eqn:Ec; [|discriminate].
    destruct (send_chunks true true cs) as [rest|] eqn:Er; [|discriminate].
    destruct (concat_opt (map chunk_bytes cs)) as [bs|] eqn:Eb; [|discriminate].
    inversion Hb; subst bytes.
    destruct (chunk_bytes_falsy c enc Ec) as [Hf1 Hf2].
    destruct (falsy c).
    + injection Hs as <-. rewrite (Hf1 eq_refl). cbn [app]. apply (IH rest bs f eq_refl eq_refl Hf).
    + rewrite chunk_len_nbytes in Hs.
      assert (Hp : payload = to_hex (N.of_nat (length enc)) ++ CRLF ++ enc ++ CRLF ++ rest) by congruence.
      subst payload. clear Hs. destruct f as [|f]; [lia|].
      replace ((to_hex (N.of_nat (length enc)) ++ CRLF ++ enc ++ CRLF ++ rest) ++ last_chunk)
        with (to_hex (N.of_nat (length enc)) ++ CRLF ++ enc ++ CRLF ++ (rest ++ last_chunk))
        by (rewrite <- !app_assoc; reflexivity).
      rewrite decode_one by (apply Hf2; reflexivity).
      rewrite (IH rest bs f eq_refl eq_refl) by lia. reflexivity.
Qed.

Lemma send_chunks_plain nb cs : forall payload bytes,
  send_chunks nb false cs = Some payload -> concat_opt (map chunk_bytes cs) = Some bytes -> payload = bytes.
Proof.
  induction cs as [|c cs IH]; intros payload bytes Hs Hb.
  - inversion Hs; inversion Hb; reflexivity.
  - cbn [send_chunks map concat_opt] in *.
    destruct (chunk_bytes c) as [enc|] eqn:Ec; [|discriminate].
    destruct (send_chunks nb false cs) as [rest|] eqn:Er; [|discriminate].
    destruct (concat_opt (map chunk_bytes cs)) as [bs|] eqn:Eb; [|discriminate].
    inversion Hb; subst bytes. destruct (chunk_bytes_falsy c enc Ec) as [Hf1 _].
    destruct (falsy c); injection Hs as <-; rewrite (IH rest bs eq_refl eq_refl); [rewrite (Hf1 eq_refl)|]; reflexivity.
Qed.

Lemma send_chunks_length cs : forall payload, send_chunks true true cs = Some payload -> (cnt cs <= length payload)%nat.
Proof.
  induction cs as [|c cs IH]; intros payload Hs; cbn [send_chunks cnt] in *; [lia|].
  destruct (chunk_bytes c) as [enc|]; [|discriminate].
  destruct (send_chunks true true cs) as [rest|]; [|discriminate].
  specialize (IH rest eq_refl).
  destruct (falsy c); [injection Hs as <-; exact IH|].
  assert (Hp : payload = to_hex (N.of_nat (chunk_len true c enc)) ++ CRLF ++ enc ++ CRLF ++ rest) by congruence.
  subst payload. rewrite !app_length. unfold CRLF. cbn [length]. lia.
Qed.

(* ---------- files: the blocks are the rest of the file ---------- *)
Lemma blocks_concat bs : (1 <= bs)%nat -> forall fuel l, (length l < fuel)%nat -> concat (blocks fuel bs l) = l.
Proof.
  intros Hbs. induction fuel as [|f IH]; intros l Hl; [lia|].
  destruct l as [|x l]; [reflexivity|]. cbn [blocks]. cbn [concat].
  rewrite IH.
  - apply firstn_skipn.
  - rewrite skipn_length. cbn [length] in *. lia.
Qed.

Lemma concat_opt_bytes (bl : list (list N)) : concat_opt (map chunk_bytes (map CB bl)) = Some (concat bl).
Proof. induction bl as [|b bl IH]; [reflexivity|]. cbn [map concat_opt chunk_bytes concat]. rewrite IH. reflexivity. Qed.

Lemma concat_opt_text (bl : list str) : concat_opt (map chunk_bytes (map CS bl)) = utf8 (concat bl).
Proof.
  induction bl as [|b bl IH]; [reflexivity|]. cbn [map concat_opt chunk_bytes concat]. rewrite utf8_app, IH.
  destruct (utf8 b), (utf8 (concat bl)); reflexivity.
Qed.

(* the chunks body_to_chunks produces stand for the body's bytes *)
Lemma chunks_are_body nbm b method bs :
  let '(chunks, cl, _) := body_to_chunks nbm b method bs in
  concat_opt (map chunk_bytes (match chunks with Some cs => cs | None => [] end)) = body_bytes b /\
  (forall n bytes, cl = Some n -> body_bytes b = Some bytes -> length bytes = n) /\
  (chunks = None <-> b = BNone).
Proof.
  destruct b as [|x|s|k x|f|one cs]; cbn [body_to_chunks body_bytes map concat_opt chunk_bytes].
  - split; [reflexivity|]. split; [|split; reflexivity]. intros n bytes Hn Hb. inversion Hb; subst.
    destruct (mem_str _ _); inversion Hn; reflexivity.
  - rewrite app_nil_r. split; [reflexivity|]. split; [|split; discriminate]. intros n bytes Hn Hb; inversion Hn; inversion Hb; subst; reflexivity.
  - split; [destruct (utf8 s); [rewrite app_nil_r|]; reflexivity|]. split; [|split; discriminate].
    intros n bytes Hn Hb. rewrite Hb in Hn. inversion Hn; reflexivity.
  - rewrite app_nil_r. split; [reflexivity|]. split; [|split; discriminate]. intros n bytes Hn Hb; inversion Hn; inversion Hb; subst; reflexivity.
  - split; [|split; [discriminate|split; discriminate]].
    set (rest := skipn (f_pos f) (f_data f)).
    assert (Hc : concat (blocks (S (length rest)) (Nat.max bs 1) rest) = rest) by (apply blocks_concat; lia).
    destruct (f_text f).
    + rewrite (map_ext _ CS) by reflexivity. rewrite concat_opt_text, Hc. reflexivity.
    + rewrite (map_ext _ CB) by reflexivity. rewrite concat_opt_bytes, Hc. reflexivity.
  - split; [reflexivity|]. split; [discriminate|split; discriminate].
Qed.

(* ---------- the framing theorem ---------- *)
Theorem framed_payload_is_body nbm method b flag bs fr wire b' bytes :
  request_frame nbm true method b flag bs = Some (fr, wire, b') ->
  body_bytes b = Some bytes ->
  unframe fr wire = Some bytes.
Proof.
  unfold request_frame. pose proof (chunks_are_body nbm b method bs) as H.
  destruct (body_to_chunks nbm b method bs) as [[chunks cl] b2]. destruct H as (Hc & Hcl & Hnone).
  set (cs := match chunks with Some cs => cs | None => [] end) in *.
  intros Hr Hb. rewrite Hb in Hc.
  assert (Hte : forall payload, send_chunks true true cs = Some payload ->
                unframe FrTE (payload ++ last_chunk) = Some bytes).
  { intros payload Hp. unfold unframe. apply (send_chunks_chunked cs payload bytes); [exact Hp|exact Hc|].
    pose proof (send_chunks_length cs payload Hp). rewrite app_length. lia. }
  destruct flag.
  - destruct (send_chunks true true cs) as [payload|] eqn:Hp; [|discriminate]. inversion Hr; subst. apply Hte; reflexivity.
  - destruct cl as [n|].
    + destruct (send_chunks true false cs) as [payload|] eqn:Hp; [|discriminate]. inversion Hr; subst.
      rewrite app_nil_r. rewrite (send_chunks_plain true cs payload bytes Hp Hc).
      unfold unframe. rewrite (Hcl n bytes eq_refl Hb), Nat.eqb_refl. reflexivity.
    + destruct chunks as [cs'|].
      * destruct (send_chunks true true cs) as [payload|] eqn:Hp; [|discriminate]. inversion Hr; subst. apply Hte; reflexivity.
      * assert (b = BNone) by (apply Hnone; reflexivity). subst b. subst cs. cbn in Hr. inversion Hr; subst.
        cbn in Hb. inversion Hb; subst. reflexivity.
Qed.

(* which framing header is chosen *)
Theorem framing_choice nbm nb method b flag bs fr wire b' :
  request_frame nbm nb method b flag bs = Some (fr, wire, b') ->
  (flag = true -> fr = FrTE) /\
  (flag = false -> b = BNone -> fr = if mem_str (ascii_upper method) nbm then FrNone else FrCL 0) /\
  (flag = false -> b = BNone -> wire = []) /\
  (b <> BNone -> fr <> FrNone).
Proof.
  unfold request_frame. destruct b as [|x|s|k x|f|one cs]; cbn [body_to_chunks]; destruct flag;
    repeat match goal with |- context[match ?e with _ => _ end] => destruct e eqn:? end; intros H; inversion H; subst;
    repeat split; intros; try congruence; try discriminate.
  all: try (cbn [send_chunks] in *; match goal with H : Some [] = Some ?l |- _ => injection H as <- end; reflexivity).
  all: try (match goal with H : (_, _) = (_, _) |- _ => inversion H; subst end; discriminate).
  all: match goal with H : match ?e with _ => _ end = (_, _) |- _ => destruct e; inversion H; subst; discriminate end.
Qed.

(* ---------- sending the request again ---------- *)
Definition fixed (P : params) : Prop :=
  pool_keeps_pos P = true /\ see_other_clears_pos P = true /\ manager_keeps_pos P = true.

(* bodies whose position can be recorded, or that do not move: everything except one-shot iterators and
   file objects without tell(); a file object that has tell() is assumed to have seek() *)
Definition rewindable (b : body) : Prop :=
  match b with
  | BIter one _ => one = false
  | BFile f => f_has_tell f = true /\ f_has_seek f = true
  | _ => True
  end.

Definition setpos (f : file) (n : nat) : file :=
  mkFile (f_text f) (f_data f) n (f_has_tell f) (f_tell_ok f) (f_has_seek f) (f_seek_ok f).

Definition Inv (b0 b : body) (p : pos) : Prop :=
  match b0 with
  | BFile f0 =>
      exists n, b = BFile (setpos f0 n) /\ (p = PNone -> n = f_pos f0) /\
                (forall m, p = PInt m -> m = f_pos f0) /\ (p = PFailed -> f_tell_ok f0 = false)
  | _ => b = b0 /\ p = PNone
  end.

Lemma setpos_id f : setpos f (f_pos f) = f.
Proof. destruct f; reflexivity. Qed.

Lemma sfp_inv b0 b p :
  rewindable b0 -> Inv b0 b p ->
  set_file_position b p = inr EUnrewindable \/
  exists p1, set_file_position b p = inl (b0, p1) /\ Inv b0 b0 p1 /\ (forall f, b0 = BFile f -> p1 <> PNone).
Proof.
  intros Hr Hi. destruct b0 as [|x|s|k x|f0|one cs]; cbn [Inv rewindable] in *.
  5:{ destruct f0 as [tx d pos0 ht tk hs sk]. cbn in Hr, Hi. destruct Hr as [-> ->]. destruct Hi as (n & -> & Hn & Hm & Hf).
      destruct p as [|m|]; cbn.
      - rewrite (Hn eq_refl). right. eexists; split; [reflexivity|]. split; [|destruct tk; discriminate]. exists pos0. split; [reflexivity|].
        destruct tk; repeat split; try discriminate; intros; try congruence.
      - destruct sk; [|left; reflexivity]. right. rewrite (Hm m eq_refl).
        eexists; split; [reflexivity|]. split; [|discriminate]. exists pos0. repeat split; try discriminate; intros; congruence.
      - left; reflexivity. }
  all: destruct Hi as [-> ->]; right; exists PNone; split; [reflexivity|split; [split; reflexivity|discriminate]].
Qed.

Lemma frame_inv nbm nb method b0 flag bs fr wire b2 p1 :
  rewindable b0 -> request_frame nbm nb method b0 flag bs = Some (fr, wire, b2) -> Inv b0 b0 p1 ->
  (forall f, b0 = BFile f -> p1 <> PNone) -> Inv b0 b2 p1.
Proof.
  intros Hr Hf Hi Hnn. unfold request_frame in Hf.
  destruct b0 as [|x|s|k x|f0|one cs]; cbn [body_to_chunks] in Hf.
  all: repeat match type of Hf with context[match ?e with _ => _ end] => destruct e end; try discriminate.
  all: inversion Hf; subst; try exact Hi.
  all: try (cbn [rewindable] in Hr; discriminate).
  all: destruct f0 as [tx d pos0 ht tk hs sk]; cbn in *.
  all: destruct Hi as (n & _ & H1 & H2 & H3); eexists; split; [reflexivity|].
  all: repeat split; try assumption.
  all: intros Hp; subst p1; exfalso; eapply Hnn; reflexivity.
Qed.

Definition frame_sent (P : params) (method : str) (b : body) (flag : bool) (bs : nat) : option sent :=
  match request_frame (nbm P) (nbytes P) method b flag bs with
  | Some (fr, wire, _) => Some (mkSent method fr wire)
  | None => None
  end.

Definition first_or_get (P : params) (method : str) (b0 : body) (flag : bool) (bs : nat) (s : sent) : Prop :=
  Some s = frame_sent P method b0 flag bs \/ Some s = frame_sent P GET BNone flag bs \/ Some s = frame_sent P GET BNone false bs.

Theorem resend_identical P via bs : fixed P ->
  forall hist flag method b0 b p, rewindable b0 -> Inv b0 b p ->
  Forall (first_or_get P method b0 flag bs) (fst (urlopen P via hist method b p flag bs)) /\
  snd (urlopen P via hist method b p flag bs) <> RErr EValueError.
Proof.
  intros (Hk & Hc & Hm).
  induction hist as [|o hist IH]; intros flag method b0 b p Hr Hi.
  - cbn [urlopen]. destruct (sfp_inv b0 b p Hr Hi) as [->|(p1 & -> & _)]; cbn [fst snd]; split; try constructor; discriminate.
  - cbn [urlopen]. destruct (sfp_inv b0 b p Hr Hi) as [->|(p1 & -> & Hi1 & Hnn)]; [cbn [fst snd]; split; [constructor|discriminate]|].
    rewrite Hk, Hc, Hm.
    assert (Hbefore : forall h, let r := urlopen P via h method b0 p1 flag bs in True) by (intros; exact I).
    destruct o as [| | | |so].
    2:{ apply IH; assumption. }
    all: destruct (request_frame (nbm P) (nbytes P) method b0 flag bs) as [[[fr wire] b2]|] eqn:Hf;
         [|cbn [fst snd]; split; [constructor|discriminate]].
    all: assert (Hs0 : first_or_get P method b0 flag bs (mkSent method fr wire))
           by (left; unfold frame_sent; rewrite Hf; reflexivity).
    all: pose proof (frame_inv _ _ _ _ _ _ _ _ _ _ Hr Hf Hi1 Hnn) as Hi2.
    + cbn [fst snd]. split; [constructor; [exact Hs0|constructor]|discriminate].
    + destruct (IH flag method b0 b2 p1 Hr Hi2) as [Ha Hb].
      destruct (urlopen P via hist method b2 p1 flag bs) as [more fin]. cbn [fst snd] in *. split; [constructor; assumption|exact Hb].
    + destruct (IH flag method b0 b2 p1 Hr Hi2) as [Ha Hb].
      destruct (urlopen P via hist method b2 p1 flag bs) as [more fin]. cbn [fst snd] in *. split; [constructor; assumption|exact Hb].
    + destruct so.
      * (* 303: a body-less GET from here on *)
        assert (Hp : (if via then PNone else PNone) = PNone) by (destruct via; reflexivity). rewrite Hp.
        destruct (IH (if see_other_unchunks P then false else flag) GET BNone BNone PNone I (conj eq_refl eq_refl)) as [Ha Hb].
        destruct (urlopen P via hist GET BNone PNone (if see_other_unchunks P then false else flag) bs) as [more fin]. cbn [fst snd] in *. split; [|exact Hb].
        constructor; [exact Hs0|]. eapply Forall_impl; [|exact Ha].
        destruct (see_other_unchunks P); intros s [H|[H|H]]; try (right; right; exact H); right; left; exact H.
      * assert (Hp : (if via then p1 else p1) = p1) by (destruct via; reflexivity). rewrite Hp.
        destruct (IH flag method b0 b2 p1 Hr Hi2) as [Ha Hb].
        destruct (urlopen P via hist method b2 p1 flag bs) as [more fin]. cbn [fst snd] in *. split; [constructor; assumption|exact Hb].
Qed.

(* without a 303 in the history every request on the wire is the first one, byte for byte *)
Theorem resend_identical_no_see_other P via flag bs : fixed P ->
  forall hist method b0 b p, rewindable b0 -> Inv b0 b p -> ~ In (ARedirect true) hist ->
  Forall (fun s => Some s = frame_sent P method b0 flag bs) (fst (urlopen P via hist method b p flag bs)).
Proof.
  intros (Hk & Hc & Hm).
  induction hist as [|o hist IH]; intros method b0 b p Hr Hi Hno.
  - cbn [urlopen]. destruct (sfp_inv b0 b p Hr Hi) as [->|(p1 & -> & _)]; cbn [fst]; constructor.
  - cbn [urlopen]. destruct (sfp_inv b0 b p Hr Hi) as [->|(p1 & -> & Hi1 & Hnn)]; [cbn [fst]; constructor|].
    rewrite Hk, Hm.
    assert (Hno' : ~ In (ARedirect true) hist) by (intros H; apply Hno; right; exact H).
    destruct o as [| | | |so].
    2:{ apply IH; assumption. }
    all: destruct (request_frame (nbm P) (nbytes P) method b0 flag bs) as [[[fr wire] b2]|] eqn:Hf; [|cbn [fst]; constructor].
    all: assert (Hs0 : Some (mkSent method fr wire) = frame_sent P method b0 flag bs) by (unfold frame_sent; rewrite Hf; reflexivity).
    all: pose proof (frame_inv _ _ _ _ _ _ _ _ _ _ Hr Hf Hi1 Hnn) as Hi2.
    + cbn [fst]. constructor; [exact Hs0|constructor].
    + pose proof (IH method b0 b2 p1 Hr Hi2 Hno') as Ha.
      destruct (urlopen P via hist method b2 p1 flag bs) as [more fin]. cbn [fst] in *. constructor; assumption.
    + pose proof (IH method b0 b2 p1 Hr Hi2 Hno') as Ha.
      destruct (urlopen P via hist method b2 p1 flag bs) as [more fin]. cbn [fst] in *. constructor; assumption.
    + destruct so; [exfalso; apply Hno; left; reflexivity|].
      assert (Hp : (if via then p1 else p1) = p1) by (destruct via; reflexivity). rewrite Hp.
      pose proof (IH method b0 b2 p1 Hr Hi2 Hno') as Ha.
      destruct (urlopen P via hist method b2 p1 flag bs) as [more fin]. cbn [fst] in *. constructor; assumption.
Qed.

Lemma Inv_init b0 : Inv b0 b0 PNone.
Proof.
  destruct b0 as [|x|s|k x|f0|one cs]; cbn [Inv]; try (split; reflexivity).
  exists (f_pos f0). rewrite setpos_id. repeat split; try discriminate; intros; congruence.
Qed.
