(* Proofs for C12 (model/ReadBody.v): nothing is lost, duplicated or reordered. *)
From Coq Require Import List NArith Arith Bool Lia.
From V Require Import model.ReadBody.
Import ListNotations.

Section Proofs.
Variable D : dec.
Variable hdc dc fe : bool.
Variable raw : list N.

Definition decoding : bool := dc && hdc.

(* what the decoder / the raw source has handed over so far *)
Definition produced (s : st) : list N :=
  if decoding then firstn (s_dpos s) (d_full D) else firstn (s_pos s) raw.

Definition wf (s : st) : Prop :=
  s_raw s = raw /\ s_pos s <= length raw /\
  (decoding = true -> avail D (s_pos s) <= s_dpos s /\ s_dpos s <= length (d_full D)) /\
  (dc = false -> s_buf s = []).

(* one operation: it returned `piece` and left state s' *)
Definition step_ok (s : st) (piece : list N) (s' : st) : Prop :=
  wf s' /\ exists delta, produced s' = produced s ++ delta /\ s_buf s ++ delta = piece ++ s_buf s'.

Lemma avail_le k : avail D k <= length (d_full D).
Proof. unfold avail. lia. Qed.

Lemma firstn_extend {A} (l : list A) a b : a <= b -> firstn b l = firstn a l ++ firstn (b - a) (skipn a l).
Proof.
  revert b l. induction a as [|a IH]; intros b l H.
  - cbn. rewrite Nat.sub_0_r. reflexivity.
  - destruct b as [|b]; [lia|]. destruct l as [|x l]; [cbn; destruct (b - a); reflexivity|].
    cbn [firstn skipn app]. f_equal. apply IH. lia.
Qed.

(* ---------- the raw source ---------- *)
Lemma fp_read_spec s amt data pos1 :
  wf s -> fp_read s amt = (data, pos1) ->
  s_pos s <= pos1 /\ pos1 <= length raw /\ firstn pos1 raw = firstn (s_pos s) raw ++ data /\
  (data = [] -> amt <> Some 0 -> pos1 = length raw) /\ length data = pos1 - s_pos s /\
  (amt = None -> pos1 = length raw).
Proof.
  intros (Hr & Hp & _) H. unfold fp_read, rest in H. rewrite Hr in H. inversion H; subst data pos1; clear H.
  set (n := match amt with Some n => Nat.min n (length raw - s_pos s) | None => length raw - s_pos s end).
  assert (Hn : n <= length raw - s_pos s) by (subst n; destruct amt; lia).
  repeat split; try lia.
  - rewrite (firstn_extend raw (s_pos s) (s_pos s + n)) by lia. f_equal. f_equal. lia.
  - intros He Ha. assert (Hl : length (firstn n (skipn (s_pos s) raw)) = n) by (rewrite firstn_length, skipn_length; lia).
    rewrite He in Hl. cbn in Hl. subst n. destruct amt as [[|a]|]; [congruence| |]; lia.
  - rewrite firstn_length, skipn_length. lia.
  - intros ->. subst n. lia.
Qed.

Lemma fp_read1_spec s amt data pos1 tp :
  wf s -> fp_read1 s amt = (data, pos1, tp) ->
  s_pos s <= pos1 /\ pos1 <= length raw /\ firstn pos1 raw = firstn (s_pos s) raw ++ data.
Proof.
  intros (Hr & Hp & _) H. unfold fp_read1, rest in H. rewrite Hr in H.
  set (lim := match amt with Some n => Nat.min n (length raw - s_pos s) | None => length raw - s_pos s end) in *.
  assert (Hl : lim <= length raw - s_pos s) by (subst lim; destruct amt; lia).
  destruct (s_tape s) as [|k tp0]; inversion H; subst data pos1 tp; clear H.
  - repeat split; try lia. rewrite (firstn_extend raw (s_pos s) (s_pos s + lim)) by lia. f_equal. f_equal. lia.
  - repeat split; try lia. rewrite (firstn_extend raw (s_pos s) (s_pos s + Nat.min k lim)) by lia. f_equal. f_equal. lia.
Qed.

(* ---------- the decoder ---------- *)
(* the produced bytes after a decode step, whatever the mode *)
Lemma decode_step_spec s data pos1 flush out dpos1 hd1 :
  wf s -> s_pos s <= pos1 -> pos1 <= length raw -> firstn pos1 raw = firstn (s_pos s) raw ++ data ->
  decode_step D hdc dc s data pos1 flush = (out, dpos1, hd1) -> dc = true ->
  let s' := set_pos_dpos_buf s pos1 dpos1 (s_buf s ++ out) hd1 (s_tape s) in
  wf s' /\ produced s' = produced s ++ out.
Proof.
  intros (Hr & Hp & Hd & Hb) Hle Hle2 Hraw H Hdc. unfold decode_step in H. rewrite Hdc in H. cbn [negb] in H.
  unfold produced, wf, decoding in *. rewrite Hdc in *. cbn [andb] in *.
  destruct hdc; cbn [negb] in H.
  - specialize (Hd eq_refl). destruct Hd as [Ha Hbb]. pose proof (avail_le pos1).
    set (upto := if flush then length (d_full D) else Nat.max (s_dpos s) (avail D pos1)) in *.
    assert (Hu : s_dpos s <= upto /\ upto <= length (d_full D) /\ avail D pos1 <= upto) by (subst upto; destruct flush; lia).
    inversion H; subst out dpos1 hd1; clear H. cbn [set_pos_dpos_buf s_raw s_pos s_dpos s_buf].
    split; [split; [exact Hr|split; [lia|split; [intros _; lia|discriminate]]]|].
    apply firstn_extend; lia.
  - inversion H; subst out dpos1 hd1; clear H. cbn [set_pos_dpos_buf s_raw s_pos s_dpos s_buf].
    split; [split; [exact Hr|split; [lia|split; discriminate]]|]. exact Hraw.
Qed.

(* ---------- read() ---------- *)
Lemma match2 {A B C} (x : list A) (y : list B) (a b r : C) :
  match x, y with [], [] => a | _, _ => b end = r -> (x = [] /\ y = [] /\ a = r) \/ b = r.
Proof. destruct x, y; intros H; auto. Qed.

Lemma step_ok_same s : wf s -> step_ok s [] s.
Proof. intros H. split; [exact H|]. exists []. rewrite !app_nil_r. split; reflexivity. Qed.

Lemma wf_rebuf s p dp b1 h1 t1 b2 h2 t2 :
  wf (set_pos_dpos_buf s p dp b1 h1 t1) -> (dc = false -> b2 = []) -> wf (set_pos_dpos_buf s p dp b2 h2 t2).
Proof. intros (H1 & H2 & H3 & H4) Hb. split; [exact H1|split; [exact H2|split; [exact H3|exact Hb]]]. Qed.

Lemma produced_buf_indep s p dp b1 b2 h1 h2 t1 t2 :
  produced (set_pos_dpos_buf s p dp b1 h1 t1) = produced (set_pos_dpos_buf s p dp b2 h2 t2).
Proof. reflexivity. Qed.

Lemma set_same s : set_pos_dpos_buf s (s_pos s) (s_dpos s) (s_buf s) (s_has_decoded s) (s_tape s) = s.
Proof. destruct s; reflexivity. Qed.

(* raw mode: decode_content=False *)
Lemma raw_step s data pos1 hd tp :
  wf s -> dc = false -> s_pos s <= pos1 -> pos1 <= length raw -> firstn pos1 raw = firstn (s_pos s) raw ++ data ->
  step_ok s data (set_pos_dpos_buf s pos1 (s_dpos s) (s_buf s) hd tp).
Proof.
  intros (Hr & Hp & Hd & Hb) Hdc H1 H2 H3. specialize (Hb Hdc).
  unfold step_ok, wf, produced, decoding. rewrite Hdc. cbn [andb set_pos_dpos_buf s_raw s_pos s_dpos s_buf].
  split; [split; [exact Hr|split; [lia|split; [discriminate|intros _; exact Hb]]]|].
  exists data. split; [exact H3|]. rewrite Hb, app_nil_r. reflexivity.
Qed.

Lemma read_all_ok s piece s' :
  wf s -> read D hdc dc true fe s None = (piece, s') -> step_ok s piece s' /\ s_pos s' = length raw /\ s_buf s' = [].
Proof.
  intros Hwf H. unfold read in H.
  destruct (fp_read s None) as [data pos1] eqn:Hf.
  destruct (fp_read_spec s None data pos1 Hwf Hf) as (H1 & H2 & H3 & H4 & H5 & H6).
  specialize (H6 eq_refl).
  assert (Hgen : forall out dpos1 hd1, decode_step D hdc dc s data pos1 true = (out, dpos1, hd1) ->
            (s_buf s ++ out, set_pos_dpos_buf s pos1 dpos1 [] hd1 (s_tape s)) = (piece, s') ->
            step_ok s piece s' /\ s_pos s' = length raw /\ s_buf s' = []).
  { intros out dpos1 hd1 Hd Heq. inversion Heq; subst piece s'; clear Heq. cbn [set_pos_dpos_buf s_pos s_buf].
    split; [|split; [exact H6|reflexivity]].
    destruct (bool_dec dc true) as [Hdc|Hdc].
    - destruct (decode_step_spec s data _ true out dpos1 hd1 Hwf H1 H2 H3 Hd Hdc) as (Hw & Hp).
      split; [eapply wf_rebuf; [exact Hw|congruence]|]. exists out. split; [exact Hp|].
      cbn [set_pos_dpos_buf s_buf]. rewrite app_nil_r. reflexivity.
    - apply not_true_is_false in Hdc. unfold decode_step in Hd. rewrite Hdc in Hd. cbn [negb] in Hd. inversion Hd; subst out dpos1 hd1; clear Hd.
      pose proof (raw_step s data pos1 (s_has_decoded s) (s_tape s) Hwf Hdc H1 H2 H3) as (Hw & delta & Hp & Hb).
      destruct Hwf as (_ & _ & _ & Hbn). specialize (Hbn Hdc).
      split; [rewrite Hbn in Hw; exact Hw|]. exists delta. split; [rewrite Hbn in Hp; exact Hp|].
      cbn [set_pos_dpos_buf s_buf] in *. rewrite Hbn in *. exact Hb. }
  destruct (match2 _ _ _ _ _ H) as [(Hd0 & Hb0 & Heq)|Heq].
  - assert (Hpos : s_pos s = length raw) by (rewrite Hd0 in H5; cbn [length] in H5; lia).
    destruct (fe && dc) eqn:Hfd.
    + apply andb_true_iff in Hfd as [_ Hdc].
      destruct (decode_step D hdc dc s [] (s_pos s) true) as [[out dpos1] hd1] eqn:Hd.
      assert (Hraw0 : firstn (s_pos s) raw = firstn (s_pos s) raw ++ []) by (rewrite app_nil_r; reflexivity).
      destruct Hwf as (W1 & W2 & W3 & W4).
      destruct (decode_step_spec s [] (s_pos s) true out dpos1 hd1 (conj W1 (conj W2 (conj W3 W4))) (le_n _) W2 Hraw0 Hd Hdc) as (Hw & Hp).
      inversion Heq; subst piece s'; clear Heq. cbn [set_pos_dpos_buf s_pos s_buf]. split; [|split; [exact Hpos|reflexivity]].
      split; [eapply wf_rebuf; [exact Hw|congruence]|]. exists out. split; [exact Hp|].
      cbn [set_pos_dpos_buf s_buf]. rewrite Hb0, app_nil_r. reflexivity.
    + inversion Heq; subst piece s'; clear Heq. split; [apply step_ok_same; exact Hwf|]. split; [exact Hpos|exact Hb0].
  - destruct (decode_step D hdc dc s data pos1 true) as [[out dpos1] hd1] eqn:Hd. eapply Hgen; eauto.
Qed.

(* the loop of read(n) *)
Lemma read_loop_ok fuel n s flush0 : dc = true -> forall pos dpos buf hd last pos2 dpos2 buf2 hd2,
  wf (set_pos_dpos_buf s pos dpos buf hd (s_tape s)) ->
  read_loop D hdc dc fe fuel n pos dpos buf hd s last flush0 = (pos2, dpos2, buf2, hd2) ->
  wf (set_pos_dpos_buf s pos2 dpos2 buf2 hd2 (s_tape s)) /\
  exists delta, produced (set_pos_dpos_buf s pos2 dpos2 buf2 hd2 (s_tape s)) =
                produced (set_pos_dpos_buf s pos dpos buf hd (s_tape s)) ++ delta /\ buf2 = buf ++ delta.
Proof.
  intros Hdc. induction fuel as [|f IH]; intros pos dpos buf hd last pos2 dpos2 buf2 hd2 Hwf H; cbn [read_loop] in H.
  - inversion H; subst. split; [exact Hwf|]. exists []. rewrite !app_nil_r. split; reflexivity.
  - destruct (Nat.leb n (length buf) || last).
    + inversion H; subst. split; [exact Hwf|]. exists []. rewrite !app_nil_r. split; reflexivity.
    + set (s1 := set_pos_dpos_buf s pos dpos buf hd (s_tape s)) in *.
      destruct (fp_read s1 (Some n)) as [data pos1] eqn:Hf.
      destruct (fp_read_spec s1 (Some n) data pos1 Hwf Hf) as (H1 & H2 & H3 & _).
      set (fl := if fe then match data with [] => true | _ :: _ => false end else flush0) in *.
      destruct (decode_step D hdc dc s1 data pos1 fl) as [[out dpos1] hd1] eqn:Hd.
      destruct (decode_step_spec s1 data pos1 fl out dpos1 hd1 Hwf H1 H2 H3 Hd Hdc) as (Hw & Hp).
      cbn [set_pos_dpos_buf s_buf s_tape s1] in Hw, Hp.
      specialize (IH pos1 dpos1 (buf ++ out) hd1 _ pos2 dpos2 buf2 hd2 Hw H). destruct IH as (Hw2 & delta & Hp2 & Hb2).
      split; [exact Hw2|]. exists (out ++ delta). split.
      * rewrite Hp2. fold s1.
        assert (Hq : produced (set_pos_dpos_buf s pos1 dpos1 (buf ++ out) hd1 (s_tape s)) = produced s1 ++ out) by exact Hp.
        rewrite Hq, <- app_assoc. reflexivity.
      * rewrite Hb2, app_assoc. reflexivity.
Qed.

Lemma read_n_ok s n piece s' :
  wf s -> read D hdc dc true fe s (Some n) = (piece, s') -> step_ok s piece s' /\ length piece <= n.
Proof.
  intros Hwf H. unfold read in H.
  destruct (Nat.leb n (length (s_buf s))) eqn:Hle.
  { inversion H; subst piece s'; clear H. split; [|rewrite firstn_length; lia].
    split.
    - destruct Hwf as (W1 & W2 & W3 & W4). split; [exact W1|split; [exact W2|split; [exact W3|]]].
      intros Hdc. cbn [set_pos_dpos_buf s_buf]. rewrite (W4 Hdc). destruct n; reflexivity.
    - exists []. rewrite !app_nil_r. split; [reflexivity|]. cbn [set_pos_dpos_buf s_buf]. symmetry. apply firstn_skipn. }
  destruct (fp_read s (Some n)) as [data pos1] eqn:Hf.
  destruct (fp_read_spec s (Some n) data pos1 Hwf Hf) as (H1 & H2 & H3 & H4 & H5 & _).
  assert (Hdn : length data <= n) by (unfold fp_read in Hf; inversion Hf; rewrite firstn_length; lia).
  destruct (match2 _ _ _ _ _ H) as [(Hd0 & Hb0 & Heq)|Heq]; clear H.
  - destruct (fe && dc && match data with [] => negb (Nat.eqb n 0) | _ :: _ => false end) eqn:Hfd.
    + apply andb_true_iff in Hfd as [Hfd _]. apply andb_true_iff in Hfd as [_ Hdc].
      destruct (decode_step D hdc dc s [] (s_pos s) true) as [[out dpos1] hd1] eqn:Hd.
      assert (Hraw0 : firstn (s_pos s) raw = firstn (s_pos s) raw ++ []) by (rewrite app_nil_r; reflexivity).
      destruct Hwf as (W1 & W2 & W3 & W4).
      destruct (decode_step_spec s [] (s_pos s) true out dpos1 hd1 (conj W1 (conj W2 (conj W3 W4))) (le_n _) W2 Hraw0 Hd Hdc) as (Hw & Hp).
      inversion Heq; subst piece s'; clear Heq. split; [|rewrite firstn_length; lia].
      split; [eapply wf_rebuf; [exact Hw|congruence]|]. exists out. split; [exact Hp|].
      cbn [set_pos_dpos_buf s_buf]. rewrite Hb0, firstn_skipn. reflexivity.
    + inversion Heq; subst piece s'. split; [apply step_ok_same; exact Hwf|cbn; lia].
  - destruct (bool_dec dc true) as [Hdc|Hdc].
    + rewrite Hdc in Heq. cbn [negb] in Heq. rewrite <- Hdc in Heq.
      set (fl := match data with [] => negb (Nat.eqb n 0) | _ => false end) in *.
      destruct (decode_step D hdc dc s data pos1 fl) as [[out dpos1] hd1] eqn:Hd.
      destruct (decode_step_spec s data pos1 fl out dpos1 hd1 Hwf H1 H2 H3 Hd Hdc) as (Hw & Hp).
      destruct (read_loop D hdc dc fe (S (rest s)) n pos1 dpos1 (s_buf s ++ out) hd1 s _ fl) as [[[pos2 dpos2] buf2] hd2] eqn:Hl.
      destruct (read_loop_ok _ n s fl Hdc _ _ _ _ _ _ _ _ _ Hw Hl) as (Hw2 & delta & Hp2 & Hb2).
      inversion Heq; subst piece s'; clear Heq. split; [|rewrite firstn_length; lia].
      split; [eapply wf_rebuf; [exact Hw2|congruence]|]. exists (out ++ delta). split.
      * rewrite (produced_buf_indep s pos2 dpos2 _ buf2 _ hd2 _ (s_tape s)), Hp2, Hp, app_assoc. reflexivity.
      * cbn [set_pos_dpos_buf s_buf]. rewrite firstn_skipn, Hb2, app_assoc. reflexivity.
    + apply not_true_is_false in Hdc. rewrite Hdc in Heq. cbn [negb] in Heq. inversion Heq; subst piece s'; clear Heq.
      split; [|exact Hdn]. apply raw_step; assumption.
Qed.

(* the loop of read1 *)
Lemma read1_loop_ok fuel s : dc = true -> forall pos dpos buf hd tp data pos2 dpos2 buf2 hd2 tp2 pos0,
  wf (set_pos_dpos_buf s pos0 dpos buf hd tp) -> pos0 <= pos -> pos <= length raw ->
  firstn pos raw = firstn pos0 raw ++ data ->
  read1_loop D hdc dc fuel pos dpos buf hd tp s data = (pos2, dpos2, buf2, hd2, tp2) ->
  wf (set_pos_dpos_buf s pos2 dpos2 buf2 hd2 tp2) /\
  exists delta, produced (set_pos_dpos_buf s pos2 dpos2 buf2 hd2 tp2) =
                produced (set_pos_dpos_buf s pos0 dpos buf hd tp) ++ delta /\ buf2 = buf ++ delta.
Proof.
  intros Hdc. induction fuel as [|f IH]; intros pos dpos buf hd tp data pos2 dpos2 buf2 hd2 tp2 pos0 Hwf Hle Hle2 Hraw H.
  all: cbn [read1_loop] in H.
  all: set (fl := match data with [] => true | _ => false end) in *.
  all: destruct (decode_step D hdc dc (set_pos_dpos_buf s pos dpos buf hd tp) data pos fl) as [[out dpos1] hd1] eqn:Hd.
  all: assert (Hd' : decode_step D hdc dc (set_pos_dpos_buf s pos0 dpos buf hd tp) data pos fl = (out, dpos1, hd1)) by exact Hd.
  all: destruct (decode_step_spec _ data pos fl out dpos1 hd1 Hwf Hle Hle2 Hraw Hd' Hdc) as (Hw & Hp).
  all: cbn [set_pos_dpos_buf s_buf s_tape] in Hw, Hp.
  - inversion H; subst. split; [exact Hw|]. exists out. split; [exact Hp|reflexivity].
  - destruct out as [|o0 out].
    + destruct fl eqn:Hfl.
      * inversion H; subst. split; [exact Hw|]. exists []. split; [exact Hp|reflexivity].
      * destruct (fp_read1 (set_pos_dpos_buf s pos dpos1 buf hd1 tp) (Some n8192)) as [[data2 pos3] tp3] eqn:Hf.
        rewrite app_nil_r in Hw.
        assert (Hw' : wf (set_pos_dpos_buf s pos dpos1 buf hd1 tp)) by exact Hw.
        destruct (fp_read1_spec _ _ _ _ _ Hw' Hf) as (F1 & F2 & F3).
        cbn [set_pos_dpos_buf s_pos] in F1, F3.
        specialize (IH pos3 dpos1 buf hd1 tp3 data2 pos2 dpos2 buf2 hd2 tp2 pos).
        assert (Hw3 : wf (set_pos_dpos_buf s pos dpos1 buf hd1 tp3)) by (eapply wf_rebuf; [exact Hw'|congruence]).
        destruct (IH Hw3 F1 F2 F3 H) as (Hw2 & delta & Hp2 & Hb2).
        split; [exact Hw2|]. exists delta. split; [|exact Hb2].
        rewrite Hp2.
        assert (Hq : produced (set_pos_dpos_buf s pos dpos1 buf hd1 tp3) = produced (set_pos_dpos_buf s pos0 dpos buf hd tp) ++ []) by exact Hp.
        rewrite Hq, app_nil_r. reflexivity.
    + inversion H; subst. split; [exact Hw|]. exists (o0 :: out). split; [exact Hp|reflexivity].
Qed.

Lemma from_buf_ok s piece b' :
  wf s -> s_buf s = piece ++ b' -> (dc = false -> b' = []) ->
  step_ok s piece (set_pos_dpos_buf s (s_pos s) (s_dpos s) b' (s_has_decoded s) (s_tape s)).
Proof.
  intros Hwf Hb Hn. split.
  - eapply wf_rebuf; [rewrite set_same; exact Hwf|exact Hn].
  - exists []. rewrite !app_nil_r. split; [reflexivity|]. cbn [set_pos_dpos_buf s_buf]. exact Hb.
Qed.

Lemma wf_buf_nil s : wf s -> dc = false -> s_buf s = [].
Proof. intros (_ & _ & _ & H). exact H. Qed.

Lemma read1_ok s amt piece s' :
  wf s -> read1 D hdc dc s amt = (piece, s') -> step_ok s piece s'.
Proof.
  intros Hwf H. unfold read1 in H.
  destruct (s_has_decoded s && negb (match s_buf s with [] => true | _ => false end)).
  { destruct amt as [n|]; inversion H; subst piece s'; clear H.
    - apply from_buf_ok; [exact Hwf|symmetry; apply firstn_skipn|]. intros Hd. rewrite (wf_buf_nil s Hwf Hd). destruct n; reflexivity.
    - apply from_buf_ok; [exact Hwf|rewrite app_nil_r; reflexivity|reflexivity]. }
  assert (Hmain : forall amt,
    (let '(data, pos1, tp1) := fp_read1 s amt in
      if negb dc then (data, set_pos_dpos_buf s pos1 (s_dpos s) (s_buf s) (s_has_decoded s) tp1)
      else
        let '(pos2, dpos2, buf2, hd2, tp2) := read1_loop D hdc dc (S (rest s)) pos1 (s_dpos s) (s_buf s) (s_has_decoded s) tp1 s data in
        match amt with
        | None => (buf2, set_pos_dpos_buf s pos2 dpos2 [] hd2 tp2)
        | Some n => (firstn n buf2, set_pos_dpos_buf s pos2 dpos2 (skipn n buf2) hd2 tp2)
        end) = (piece, s') -> step_ok s piece s').
  { clear H. intros amt0 H.
    destruct (fp_read1 s amt0) as [[data pos1] tp1] eqn:Hf.
    destruct (fp_read1_spec s amt0 data pos1 tp1 Hwf Hf) as (F1 & F2 & F3).
    destruct (bool_dec dc true) as [Hdc|Hdc].
    - rewrite Hdc in H. cbn [negb] in H. rewrite <- Hdc in H.
      destruct (read1_loop D hdc dc (S (rest s)) pos1 (s_dpos s) (s_buf s) (s_has_decoded s) tp1 s data) as [[[[pos2 dpos2] buf2] hd2] tp2] eqn:Hl.
      assert (Hw0 : wf (set_pos_dpos_buf s (s_pos s) (s_dpos s) (s_buf s) (s_has_decoded s) tp1))
        by (eapply wf_rebuf; [rewrite set_same; exact Hwf|congruence]).
      destruct (read1_loop_ok _ s Hdc _ _ _ _ _ _ _ _ _ _ _ _ Hw0 F1 F2 F3 Hl) as (Hw2 & delta & Hp2 & Hb2).
      assert (Hq : produced (set_pos_dpos_buf s (s_pos s) (s_dpos s) (s_buf s) (s_has_decoded s) tp1) = produced s) by (destruct s; reflexivity).
      rewrite Hq in Hp2.
      destruct amt0 as [n|]; inversion H; subst piece s'; clear H.
      + split; [eapply wf_rebuf; [exact Hw2|congruence]|]. exists delta. split; [exact Hp2|].
        cbn [set_pos_dpos_buf s_buf]. rewrite firstn_skipn. symmetry. exact Hb2.
      + split; [eapply wf_rebuf; [exact Hw2|congruence]|]. exists delta. split; [exact Hp2|].
        cbn [set_pos_dpos_buf s_buf]. rewrite app_nil_r. symmetry. exact Hb2.
    - apply not_true_is_false in Hdc. rewrite Hdc in H. cbn [negb] in H. inversion H; subst piece s'; clear H.
      apply raw_step; assumption. }
  destruct amt as [[|n]|].
  - inversion H; subst. apply step_ok_same; exact Hwf.
  - apply (Hmain (Some (S n))). exact H.
  - apply (Hmain None). exact H.
Qed.

(* ---------- a sequence of calls ---------- *)
Lemma step_ok_trans s p1 s1 p2 s2 : step_ok s p1 s1 -> step_ok s1 p2 s2 -> step_ok s (p1 ++ p2) s2.
Proof.
  intros (W1 & d1 & P1 & B1) (W2 & d2 & P2 & B2). split; [exact W2|]. exists (d1 ++ d2). split.
  - rewrite P2, P1, app_assoc. reflexivity.
  - rewrite app_assoc, B1, <- app_assoc, B2, app_assoc. reflexivity.
Qed.

Lemma run_calls_ok cs : forall s ps s', wf s -> run_calls D hdc dc true true fe s cs = (ps, s') -> step_ok s (concat ps) s'.
Proof.
  induction cs as [|c cs IH]; intros s ps s' Hwf H; cbn [run_calls] in H.
  - inversion H; subst. apply step_ok_same; exact Hwf.
  - destruct (match c with CRead a => read D hdc dc true fe s a | CRead1 a => read1 D hdc dc s a | CReadinto k => read D hdc dc true fe s (Some k) end)
      as [p s1] eqn:Hc.
    destruct (run_calls D hdc dc true true fe s1 cs) as [ps1 s2] eqn:Hr. inversion H; subst ps s'; clear H.
    assert (Hs1 : step_ok s p s1).
    { destruct c as [[n|]|a|k].
      - exact (proj1 (read_n_ok s n p s1 Hwf Hc)).
      - exact (proj1 (read_all_ok s p s1 Hwf Hc)).
      - exact (read1_ok s a p s1 Hwf Hc).
      - exact (proj1 (read_n_ok s k p s1 Hwf Hc)). }
    cbn [concat]. eapply step_ok_trans; [exact Hs1|]. apply IH; [exact (proj1 Hs1)|exact Hr].
Qed.

(* ---------- stream() through read() ---------- *)
Lemma read_ok s amt piece s' : wf s -> read D hdc dc true fe s amt = (piece, s') -> step_ok s piece s'.
Proof. intros Hwf H. destruct amt as [n|]; [exact (proj1 (read_n_ok s n piece s' Hwf H))|exact (proj1 (read_all_ok s piece s' Hwf H))]. Qed.

Lemma stream_loop_ok fuel amt : forall s ps s',
  wf s -> stream_loop D hdc dc true fe fuel s amt = (ps, s') ->
  step_ok s (concat ps) s' /\ Forall (fun p => p <> []) ps.
Proof.
  induction fuel as [|f IH]; intros s ps s' Hwf H; cbn [stream_loop] in H.
  - inversion H; subst ps s'. split; [apply step_ok_same; exact Hwf|constructor].
  - destruct (read D hdc dc true fe s amt) as [piece s1] eqn:Hr.
    pose proof (read_ok s amt piece s1 Hwf Hr) as Hs1.
    destruct piece as [|b0 piece].
    + destruct (Nat.eqb (rest s1) 0 && match s_buf s1 with [] => true | _ => false end).
      * inversion H; subst ps s'. split; [exact Hs1|constructor].
      * destruct (stream_loop D hdc dc true fe f s1 amt) as [more s2] eqn:Hm. inversion H; subst ps s'; clear H.
        destruct (IH s1 more s2 (proj1 Hs1) Hm) as [Hs2 Hne]. split; [|exact Hne].
        change (concat more) with ([] ++ concat more). eapply step_ok_trans; eassumption.
    + destruct (stream_loop D hdc dc true fe f s1 amt) as [more s2] eqn:Hm. inversion H; subst ps s'; clear H.
      destruct (IH s1 more s2 (proj1 Hs1) Hm) as [Hs2 Hne]. split; [|constructor; [discriminate|exact Hne]].
      cbn [concat]. eapply step_ok_trans; eassumption.
Qed.

(* ---------- read_chunked ---------- *)
Lemma chunk_pieces_ok sizes : forall s ps s',
  wf s -> s_buf s = [] -> chunk_pieces D hdc dc s sizes = (ps, s') ->
  step_ok s (concat ps) s' /\ s_buf s' = [] /\ Forall (fun p => p <> []) ps /\
  s_pos s' = Nat.min (length raw) (s_pos s + list_sum sizes).
Proof.
  induction sizes as [|k sizes IH]; intros s ps s' Hwf Hb H; cbn [chunk_pieces] in H.
  - inversion H; subst ps s'. split; [apply step_ok_same; exact Hwf|]. split; [exact Hb|]. split; [constructor|].
    destruct Hwf as (_ & Hp & _). cbn. lia.
  - destruct (fp_read s (Some k)) as [data pos1] eqn:Hf.
    destruct (fp_read_spec s (Some k) data pos1 Hwf Hf) as (F1 & F2 & F3 & _).
    assert (Hpos1 : pos1 = Nat.min (length raw) (s_pos s + k)).
    { unfold fp_read, rest in Hf. destruct Hwf as (Hr & Hp & _). rewrite Hr in Hf. inversion Hf. lia. }
    destruct (decode_step D hdc dc s data pos1 false) as [[out dpos1] hd1] eqn:Hd.
    set (s1 := set_pos_dpos_buf s pos1 dpos1 (s_buf s) hd1 (s_tape s)) in *.
    destruct (chunk_pieces D hdc dc s1 sizes) as [ps1 s2] eqn:Hc.
    assert (Hs1 : step_ok s out s1).
    { destruct (bool_dec dc true) as [Hdc|Hdc].
      - destruct (decode_step_spec s data pos1 false out dpos1 hd1 Hwf F1 F2 F3 Hd Hdc) as (Hw & Hp).
        split; [eapply wf_rebuf; [exact Hw|congruence]|]. exists out. split; [exact Hp|]. subst s1. cbn [set_pos_dpos_buf s_buf]. rewrite Hb, app_nil_r. reflexivity.
      - apply not_true_is_false in Hdc. unfold decode_step in Hd. rewrite Hdc in Hd. cbn [negb] in Hd. inversion Hd; subst out dpos1 hd1.
        apply raw_step; assumption. }
    assert (Hb1 : s_buf s1 = []) by exact Hb.
    destruct (IH s1 ps1 s2 (proj1 Hs1) Hb1 Hc) as (Hs2 & Hb2 & Hne & Hpos).
    assert (Hfin : step_ok s (out ++ concat ps1) s2) by (eapply step_ok_trans; eassumption).
    assert (Hposf : s_pos s2 = Nat.min (length raw) (s_pos s + list_sum (k :: sizes))).
    { rewrite Hpos. subst s1. cbn [set_pos_dpos_buf s_pos]. change (list_sum (k :: sizes)) with (k + list_sum sizes). destruct Hwf as (_ & Hpp & _). lia. }
    destruct out as [|o0 out]; inversion H; subst ps s'; clear H.
    + split; [exact Hfin|]. split; [exact Hb2|]. split; [exact Hne|exact Hposf].
    + split; [exact Hfin|]. split; [exact Hb2|]. split; [constructor; [discriminate|exact Hne]|exact Hposf].
Qed.

Lemma split_chunk_sum fuel amt : forall left, left < fuel -> list_sum (split_chunk fuel amt left) = left.
Proof.
  induction fuel as [|f IH]; intros left Hl; [lia|]. cbn [split_chunk].
  destruct left as [|l]; [reflexivity|]. destruct amt as [a|]; [|cbn; lia].
  destruct (Nat.ltb_spec a (S l)); [|cbn; lia]. cbn [list_sum fold_right]. fold (list_sum (split_chunk f (Some a) (S l - Nat.max a 1))). rewrite IH by lia. lia.
Qed.

Lemma flat_split_sum amt chunks : list_sum (flat_map (fun c => split_chunk (S c) amt c) chunks) = list_sum chunks.
Proof.
  induction chunks as [|c cs IH]; [reflexivity|]. cbn [flat_map]. rewrite list_sum_app, IH, split_chunk_sum by lia. reflexivity.
Qed.

Lemma read_chunked_ok s amt ps s' :
  wf s -> s_buf s = [] -> read_chunked D hdc dc s amt = (ps, s') ->
  step_ok s (concat ps) s' /\ s_buf s' = [] /\ Forall (fun p => p <> []) ps /\
  s_pos s' = Nat.min (length raw) (s_pos s + list_sum (s_chunks s)).
Proof.
  intros Hwf Hb H. unfold read_chunked in H.
  destruct (chunk_pieces D hdc dc s _) as [ps1 s1] eqn:Hc.
  destruct (chunk_pieces_ok _ s ps1 s1 Hwf Hb Hc) as (Hs1 & Hb1 & Hne & Hpos). rewrite flat_split_sum in Hpos.
  destruct (dc && hdc) eqn:Hdec.
  - set (tail := skipn (s_dpos s1) (d_full D)) in *.
    inversion H; subst ps s'; clear H. cbn [set_pos_dpos_buf s_buf s_pos]. split; [|split; [exact Hb1|split; [|exact Hpos]]].
    + rewrite concat_app. eapply step_ok_trans; [exact Hs1|].
      destruct Hs1 as ((W1 & W2 & W3 & W4) & _). specialize (W3 Hdec).
      assert (Hstep : step_ok s1 tail (set_pos_dpos_buf s1 (s_pos s1) (length (d_full D)) (s_buf s1) (s_has_decoded s1) (s_tape s1))).
      { split.
        - split; [exact W1|split; [exact W2|split; [intros _; cbn [set_pos_dpos_buf s_pos s_dpos]; pose proof (avail_le (s_pos s1)); lia|exact W4]]].
        - exists tail. unfold produced. unfold decoding. rewrite Hdec. cbn [set_pos_dpos_buf s_dpos s_buf]. split.
          + rewrite firstn_all. subst tail. symmetry. apply firstn_skipn.
          + rewrite Hb1. rewrite app_nil_r. reflexivity. }
      destruct tail as [|t0 tl]; cbn [concat]; [|rewrite app_nil_r]; exact Hstep.
    + apply Forall_app. split; [exact Hne|]. destruct tail; constructor; [discriminate|constructor].
  - inversion H; subst ps s'; clear H. split; [exact Hs1|]. split; [exact Hb1|]. split; [exact Hne|exact Hpos].
Qed.

(* ---------- iteration ---------- *)
Lemma split_nl_concat l : forall cur ls last, split_nl cur l = (ls, last) -> concat ls ++ last = cur ++ l.
Proof.
  induction l as [|c r IH]; intros cur ls last H; cbn [split_nl] in H.
  - inversion H; subst ls last. cbn [concat app]. rewrite app_nil_r. reflexivity.
  - destruct (N.eqb c 10).
    + destruct (split_nl [] r) as [ls1 last1] eqn:Hs. inversion H; subst ls last; clear H.
      cbn [concat]. rewrite <- app_assoc, (IH [] ls1 last1 Hs). cbn [app]. rewrite <- app_assoc. reflexivity.
    + rewrite (IH _ _ _ H), <- app_assoc. reflexivity.
Qed.

Lemma lines_of_concat ps : forall pending, concat (lines_of pending ps) = pending ++ concat ps.
Proof.
  induction ps as [|p ps IH]; intros pending; cbn [lines_of concat].
  - destruct pending; cbn; rewrite ?app_nil_r; reflexivity.
  - destruct (split_nl pending p) as [ls last] eqn:Hs. rewrite concat_app, IH, app_assoc, (split_nl_concat _ _ _ _ Hs), app_assoc. reflexivity.
Qed.

(* ---------- whole runs ---------- *)
Definition target : list N := if decoding then d_full D else raw.
Definition dec_ok : Prop := avail D (length raw) = length (d_full D) /\ avail D 0 = 0.

Lemma produced_prefix s : wf s -> exists more, target = produced s ++ more.
Proof.
  intros _. unfold target, produced. destruct decoding; eexists; symmetry; apply firstn_skipn.
Qed.

Lemma drained_target s : wf s -> dec_ok -> s_pos s = length raw -> produced s = target.
Proof.
  intros (_ & _ & Hd & _) Hok Hp. unfold produced, target. destruct decoding.
  - specialize (Hd eq_refl). destruct Hok as [Hok _]. rewrite Hp in Hd. rewrite Hok in Hd. replace (s_dpos s) with (length (d_full D)) by (destruct Hd; lia). apply firstn_all.
  - rewrite Hp. apply firstn_all.
Qed.

Definition s0 (chunks tape : list nat) : st := mkSt raw 0 0 [] false tape None chunks.
Lemma wf_s0 chunks tape : dec_ok -> wf (s0 chunks tape).
Proof. intros [_ H0]. split; [reflexivity|]. split; [cbn; lia|]. split; [intros _; cbn [s0 s_pos s_dpos]; rewrite H0; lia|reflexivity]. Qed.

Lemma from_start chunks tape piece s' : step_ok (s0 chunks tape) piece s' -> piece ++ s_buf s' = produced s'.
Proof.
  intros (_ & delta & Hp & Hb). rewrite Hp. unfold produced at 1. cbn [s0 s_pos s_dpos s_buf firstn] in *.
  destruct decoding; cbn [firstn app] in *; symmetry; exact Hb.
Qed.

(* every finisher, from a well-formed state with the guard conditions the code checks *)
Lemma run_finish_ok chunked s f fs s' :
  wf s -> (forall a, f = FReadChunked a -> s_buf s = []) -> dc = true \/ f <> FIter ->
  run_finish D hdc dc true true fe chunked s f = (fs, s') -> step_ok s (concat fs) s'.
Proof.
  intros Hwf Hrc Hit H. destruct f as [| |a|a| |]; cbn [run_finish] in H.
  - inversion H; subst fs s'. apply step_ok_same; exact Hwf.
  - destruct (read D hdc dc true fe s None) as [p s1] eqn:Hr. inversion H; subst fs s'. cbn [concat]. rewrite app_nil_r.
    exact (proj1 (read_all_ok s p s1 Hwf Hr)).
  - unfold stream in H. cbn [negb orb] in H.
    destruct (chunked && (Nat.eqb (s_pos s) 0 && match s_buf s with [] => true | _ => false end)) eqn:Hg.
    + apply andb_true_iff in Hg as [_ Hg]. apply andb_true_iff in Hg as [_ Hg].
      assert (Hb : s_buf s = []) by (destruct (s_buf s); [reflexivity|discriminate]).
      exact (proj1 (read_chunked_ok s a fs s' Hwf Hb H)).
    + exact (proj1 (stream_loop_ok _ a s fs s' Hwf H)).
  - exact (proj1 (read_chunked_ok s a fs s' Hwf (Hrc a eq_refl) H)).
  - destruct Hit as [Hdc|Hn]; [|congruence].
    replace (stream D hdc true true true fe chunked s (Some n65536)) with (stream D hdc dc true true fe chunked s (Some n65536)) in H
      by (rewrite Hdc; reflexivity).
    destruct (stream D hdc dc true true fe chunked s (Some n65536)) as [ps s1] eqn:Hs. inversion H; subst fs s'; clear H.
    rewrite lines_of_concat. cbn [app].
    unfold stream in Hs. cbn [negb orb] in Hs.
    destruct (chunked && (Nat.eqb (s_pos s) 0 && match s_buf s with [] => true | _ => false end)) eqn:Hg.
    + apply andb_true_iff in Hg as [_ Hg]. apply andb_true_iff in Hg as [_ Hg].
      assert (Hb : s_buf s = []) by (destruct (s_buf s); [reflexivity|discriminate]).
      exact (proj1 (read_chunked_ok s _ ps s1 Hwf Hb Hs)).
    + exact (proj1 (stream_loop_ok _ _ s ps s1 Hwf Hs)).
  - destruct (read D hdc dc true fe s None) as [p s1] eqn:Hr. inversion H; subst fs s'. cbn [concat]. rewrite app_nil_r.
    exact (proj1 (read_all_ok s p s1 Hwf Hr)).
Qed.

(* what was returned so far, followed by what is still buffered, is exactly what the decoder has produced:
   a prefix of the payload, nothing lost, duplicated or reordered *)
Theorem returned_is_prefix chunked chunks tape cs f ps fs s1 s2 :
  dec_ok ->
  run_calls D hdc dc true true fe (s0 chunks tape) cs = (ps, s1) ->
  (forall a, f = FReadChunked a -> s_buf s1 = []) -> dc = true \/ f <> FIter ->
  run_finish D hdc dc true true fe chunked s1 f = (fs, s2) ->
  exists more, target = (concat ps ++ concat fs) ++ s_buf s2 ++ more.
Proof.
  intros Hok Hc Hrc Hit Hf.
  pose proof (run_calls_ok cs _ _ _ (wf_s0 chunks tape Hok) Hc) as H1.
  pose proof (run_finish_ok chunked s1 f fs s2 (proj1 H1) Hrc Hit Hf) as H2.
  pose proof (step_ok_trans _ _ _ _ _ H1 H2) as H3.
  destruct (produced_prefix s2 (proj1 H3)) as [more Hm]. exists more.
  rewrite Hm, <- (from_start chunks tape _ s2 H3), <- app_assoc. reflexivity.
Qed.

(* ended by read() or preloaded: everything was returned *)
Theorem read_returns_everything chunked chunks tape cs f ps fs s1 s2 :
  dec_ok -> f = FRead \/ f = FData ->
  run_calls D hdc dc true true fe (s0 chunks tape) cs = (ps, s1) ->
  run_finish D hdc dc true true fe chunked s1 f = (fs, s2) ->
  concat ps ++ concat fs = target.
Proof.
  intros Hok Hfr Hc Hf.
  pose proof (run_calls_ok cs _ _ _ (wf_s0 chunks tape Hok) Hc) as H1.
  assert (Hd : step_ok s1 (concat fs) s2 /\ s_pos s2 = length raw /\ s_buf s2 = []).
  { destruct Hfr as [-> | ->]; cbn [run_finish] in Hf; destruct (read D hdc dc true fe s1 None) as [p s3] eqn:Hr;
      inversion Hf; subst fs s2; cbn [concat]; rewrite app_nil_r; exact (read_all_ok s1 p s3 (proj1 H1) Hr). }
  destruct Hd as (H2 & Hpos & Hbuf).
  pose proof (step_ok_trans _ _ _ _ _ H1 H2) as H3.
  rewrite <- (drained_target s2 (proj1 H3) Hok Hpos), <- (from_start chunks tape _ s2 H3), Hbuf, app_nil_r. reflexivity.
Qed.

(* any finisher: once the source is dry and nothing is buffered, everything was returned *)
Theorem drained_returns_everything chunked chunks tape cs f ps fs s1 s2 :
  dec_ok ->
  run_calls D hdc dc true true fe (s0 chunks tape) cs = (ps, s1) ->
  (forall a, f = FReadChunked a -> s_buf s1 = []) -> dc = true \/ f <> FIter ->
  run_finish D hdc dc true true fe chunked s1 f = (fs, s2) ->
  s_pos s2 = length raw -> s_buf s2 = [] ->
  concat ps ++ concat fs = target.
Proof.
  intros Hok Hc Hrc Hit Hf Hpos Hbuf.
  pose proof (run_calls_ok cs _ _ _ (wf_s0 chunks tape Hok) Hc) as H1.
  pose proof (run_finish_ok chunked s1 f fs s2 (proj1 H1) Hrc Hit Hf) as H2.
  pose proof (step_ok_trans _ _ _ _ _ H1 H2) as H3.
  rewrite <- (drained_target s2 (proj1 H3) Hok Hpos), <- (from_start chunks tape _ s2 H3), Hbuf, app_nil_r. reflexivity.
Qed.

(* read_chunked / stream on a fresh chunked response whose chunks make up the body: everything is returned, no piece is empty *)
Theorem read_chunked_returns_everything chunks tape amt fs s2 :
  dec_ok -> list_sum chunks = length raw ->
  read_chunked D hdc dc (s0 chunks tape) amt = (fs, s2) ->
  concat fs = target /\ Forall (fun p => p <> []) fs.
Proof.
  intros Hok Hsum Hf.
  destruct (read_chunked_ok _ amt fs s2 (wf_s0 chunks tape Hok) eq_refl Hf) as (H2 & Hbuf & Hne & Hpos).
  split; [|exact Hne]. cbn [s0 s_pos s_chunks] in Hpos. rewrite Hsum in Hpos.
  assert (Hp : s_pos s2 = length raw) by lia.
  rewrite <- (drained_target s2 (proj1 H2) Hok Hp), <- (from_start chunks tape _ s2 H2), Hbuf, app_nil_r. reflexivity.
Qed.
End Proofs.
