(* C17: RecentlyUsedContainer model — bound, unique keys, dispose-exactly-once,
   binding persistence, LRU order (ghost timestamps). *)
From Coq Require Import List NArith Bool Arith Lia Permutation.
From V Require Import model.Lru.
Import ListNotations.

Definition keys (c : cont) : list key := map fst c.
Definition vals (c : cont) : list val := map snd c.

Lemma c_find_none k c : c_find k c = None <-> ~ In k (keys c).
Proof.
  induction c as [|[k' v] c IH]; simpl; [tauto|].
  destruct (N.eqb_spec k k') as [->|Hne]; [split; [discriminate | intros H; exfalso; apply H; auto]|].
  rewrite IH. split; [intros H [H1|H1]; congruence | tauto].
Qed.

Lemma c_find_some k c v : c_find k c = Some v -> In (k, v) c.
Proof.
  induction c as [|[k' v'] c IH]; simpl; [discriminate|].
  destruct (N.eqb_spec k k') as [->|Hne]; [intros [= ->]; auto | auto].
Qed.

Lemma keys_remove_incl k c x : In x (keys (c_remove k c)) -> In x (keys c).
Proof.
  induction c as [|[k' v] c IH]; simpl; [tauto|].
  destruct (k =? k')%N; simpl; tauto.
Qed.

Lemma NoDup_remove k c : NoDup (keys c) -> NoDup (keys (c_remove k c)).
Proof.
  induction c as [|[k' v] c IH]; simpl; intros H; [constructor|].
  inversion H; subst. destruct (k =? k')%N; [assumption|].
  simpl. constructor; [|auto]. intros Hx. apply keys_remove_incl in Hx. contradiction.
Qed.

Lemma remove_not_in k c : NoDup (keys c) -> ~ In k (keys (c_remove k c)).
Proof.
  induction c as [|[k' v] c IH]; simpl; intros H; [tauto|].
  inversion H; subst. destruct (N.eqb_spec k k') as [->|Hne]; [assumption|].
  simpl. intros [H1|H1]; [congruence | apply IH; assumption].
Qed.

Lemma length_remove k c v : c_find k c = Some v -> S (length (c_remove k c)) = length c.
Proof.
  induction c as [|[k' v'] c IH]; simpl; [discriminate|].
  destruct (k =? k')%N; [reflexivity|]. intros H. simpl. rewrite IH; auto.
Qed.

Lemma NoDup_snoc {A} (l : list A) x : NoDup l -> ~ In x l -> NoDup (l ++ [x]).
Proof.
  induction l as [|y l IH]; simpl; intros Hn Hx.
  - repeat constructor. tauto.
  - inversion Hn; subst. constructor.
    + rewrite in_app_iff. simpl. intros [H|[H|[]]]; [tauto | subst; tauto].
    + apply IH; tauto.
Qed.

Lemma keys_app a b : keys (a ++ b) = keys a ++ keys b.
Proof. apply map_app. Qed.

Definition Inv (maxsize : nat) (c : cont) : Prop := NoDup (keys c) /\ length c <= maxsize.

Lemma Inv_getitem m k c v c' : Inv m c -> getitem k c = Some (v, c') -> Inv m c'.
Proof.
  unfold getitem. destruct (c_find k c) eqn:E; [|discriminate].
  intros [Hn Hl] [= <- <-]. split.
  - rewrite keys_app. simpl. apply NoDup_snoc; [apply NoDup_remove; assumption | apply remove_not_in; assumption].
  - rewrite app_length. simpl. pose proof (length_remove _ _ _ E). lia.
Qed.

Lemma Inv_setitem m k v c c' d : Inv m c -> setitem m k v c = (c', d) -> Inv m c'.
Proof.
  unfold setitem. intros [Hn Hl]. destruct (c_find k c) eqn:E.
  - intros [= <- <-]. split.
    + rewrite keys_app. simpl. apply NoDup_snoc; [apply NoDup_remove; assumption | apply remove_not_in; assumption].
    + rewrite app_length. simpl. pose proof (length_remove _ _ _ E). lia.
  - apply c_find_none in E.
    assert (Hn' : NoDup (keys (c ++ [(k, v)]))) by (rewrite keys_app; simpl; apply NoDup_snoc; assumption).
    assert (Hl' : length (c ++ [(k, v)]) = S (length c)) by (rewrite app_length; simpl; lia).
    destruct (m <? length (c ++ [(k, v)])) eqn:Lt.
    + destruct (c ++ [(k, v)]) as [|[k0 v0] r] eqn:Ec; intros [= <- <-].
      * split; [constructor | simpl; lia].
      * simpl in *. inversion Hn'; subst. split; [assumption | lia].
    + intros [= <- <-]. apply Nat.ltb_ge in Lt. split; [assumption | lia].
Qed.

Lemma Inv_delitem m k c c' d : Inv m c -> delitem k c = Some (c', d) -> Inv m c'.
Proof.
  unfold delitem. destruct (c_find k c) eqn:E; [|discriminate].
  intros [Hn Hl] [= <- <-]. split; [apply NoDup_remove; assumption|].
  pose proof (length_remove _ _ _ E). lia.
Qed.

Lemma Inv_step m c p : Inv m c -> Inv m (fst (fst (step m c p))).
Proof.
  intros H. destruct p; simpl.
  - destruct (getitem k c) as [[v c']|] eqn:E; simpl; [eapply Inv_getitem; eauto | assumption].
  - destruct (setitem m k v c) as [c' d] eqn:E; simpl. eapply Inv_setitem; eauto.
  - destruct (delitem k c) as [[c' d]|] eqn:E; simpl; [eapply Inv_delitem; eauto | assumption].
  - assumption.
  - split; [constructor | simpl; lia].
  - assumption.
  - destruct (getitem k c) as [[v c']|] eqn:E; simpl; [eapply Inv_getitem; eauto | assumption].
  - destruct (getitem k c) as [[v c']|] eqn:E; simpl; [eapply Inv_getitem; eauto | assumption].
  - destruct (getitem k c) as [[v c']|] eqn:E; simpl; [|assumption].
    assert (H' : Inv m c') by (eapply Inv_getitem; eauto).
    destruct (delitem k c') as [[c'' d]|] eqn:E2; simpl; [eapply Inv_delitem; eauto | assumption].
  - destruct (getitem k c) as [[x c']|] eqn:E; simpl; [eapply Inv_getitem; eauto|].
    destruct (setitem m k v c) as [c' d] eqn:E2; simpl. eapply Inv_setitem; eauto.
  - destruct (getitem k c) as [[x c']|] eqn:E; simpl; [eapply Inv_getitem; eauto|].
    destruct (setitem m k fresh c) as [c' d] eqn:E2; simpl. eapply Inv_setitem; eauto.
Qed.

Lemma run_fst m ops c :
  fst (fst (run m ops c)) = fold_left (fun c p => fst (fst (step m c p))) ops c.
Proof.
  revert c. induction ops as [|p ops IH]; simpl; intros c; [reflexivity|].
  destruct (step m c p) as [[c' x] d] eqn:E. specialize (IH c').
  destruct (run m ops c') as [[c'' xs] ds]. simpl in *. assumption.
Qed.

Theorem run_inv m ops c : Inv m c -> Inv m (fst (fst (run m ops c))).
Proof.
  rewrite run_fst. revert c. induction ops as [|p ops IH]; simpl; intros c H; [assumption|].
  apply IH. apply Inv_step. assumption.
Qed.

(* ---------- dispose exactly once: conservation of the multiset of values ---------- *)
Lemma vals_app a b : vals (a ++ b) = vals a ++ vals b.
Proof. apply map_app. Qed.

Lemma perm_remove k c v : c_find k c = Some v -> Permutation (vals c) (v :: vals (c_remove k c)).
Proof.
  induction c as [|[k' v'] c IH]; simpl; [discriminate|].
  destruct (k =? k')%N.
  - intros [= ->]. reflexivity.
  - intros H. simpl. rewrite (IH H). apply perm_swap.
Qed.

Lemma getitem_vals k c v c' : getitem k c = Some (v, c') -> Permutation (vals c) (vals c').
Proof.
  unfold getitem. destruct (c_find k c) eqn:E; [|discriminate]. intros [= <- <-].
  rewrite vals_app. simpl. rewrite (perm_remove _ _ _ E).
  apply Permutation_cons_append.
Qed.

Lemma setitem_vals m k v c c' d :
  setitem m k v c = (c', d) -> Permutation (v :: vals c) (vals c' ++ d).
Proof.
  unfold setitem. destruct (c_find k c) eqn:E.
  - intros [= <- <-]. rewrite vals_app. simpl. rewrite (perm_remove _ _ _ E).
    rewrite <- app_assoc. simpl.
    transitivity (v :: vals (c_remove k c) ++ [v0]).
    + constructor. apply Permutation_cons_append.
    + apply Permutation_middle.
  - destruct (m <? length (c ++ [(k, v)])).
    + destruct (c ++ [(k, v)]) as [|[k0 v0] r] eqn:Ec; intros [= <- <-].
      * destruct c; discriminate.
      * assert (Hv : vals (c ++ [(k, v)]) = v0 :: vals r) by (rewrite Ec; reflexivity).
        rewrite vals_app in Hv. simpl in Hv.
        transitivity (vals c ++ [v]); [apply Permutation_cons_append|].
        rewrite Hv. apply Permutation_cons_append.
    + intros [= <- <-]. rewrite app_nil_r, vals_app. simpl. apply Permutation_cons_append.
Qed.

Lemma delitem_vals k c c' d : delitem k c = Some (c', d) -> Permutation (vals c) (vals c' ++ d).
Proof.
  unfold delitem. destruct (c_find k c) eqn:E; [|discriminate]. intros [= <- <-].
  rewrite (perm_remove _ _ _ E). apply Permutation_cons_append.
Qed.

Lemma getitem_find k c : getitem k c = None <-> c_find k c = None.
Proof. unfold getitem. destruct (c_find k c); split; congruence. Qed.

Lemma step_conserves m c p :
  let '(c', _, d) := step m c p in
  Permutation (stored_by c p ++ vals c) (vals c' ++ d).
Proof.
  destruct p; simpl.
  - destruct (getitem k c) as [[v c']|] eqn:E; rewrite app_nil_r; [eapply getitem_vals; eauto | reflexivity].
  - destruct (setitem m k v c) as [c' d] eqn:E. eapply setitem_vals; eauto.
  - destruct (delitem k c) as [[c' d]|] eqn:E; [eapply delitem_vals; eauto | rewrite app_nil_r; reflexivity].
  - rewrite app_nil_r. reflexivity.
  - reflexivity.
  - rewrite app_nil_r. reflexivity.
  - destruct (getitem k c) as [[v c']|] eqn:E; rewrite app_nil_r; [eapply getitem_vals; eauto | reflexivity].
  - destruct (getitem k c) as [[v c']|] eqn:E; rewrite app_nil_r; [eapply getitem_vals; eauto | reflexivity].
  - destruct (getitem k c) as [[v c']|] eqn:E; [|rewrite app_nil_r; reflexivity].
    destruct (delitem k c') as [[c'' d]|] eqn:E2.
    + rewrite (getitem_vals _ _ _ _ E). eapply delitem_vals; eauto.
    + rewrite app_nil_r. eapply getitem_vals; eauto.
  - destruct (getitem k c) as [[x c']|] eqn:E.
    + unfold getitem in E. destruct (c_find k c) eqn:F; [|discriminate].
      simpl. rewrite app_nil_r. eapply getitem_vals. unfold getitem. rewrite F. eassumption.
    + apply getitem_find in E. rewrite E.
      destruct (setitem m k v c) as [c' d] eqn:E2. eapply setitem_vals; eauto.
  - destruct (getitem k c) as [[x c']|] eqn:E.
    + unfold getitem in E. destruct (c_find k c) eqn:F; [|discriminate].
      simpl. rewrite app_nil_r. eapply getitem_vals. unfold getitem. rewrite F. eassumption.
    + apply getitem_find in E. rewrite E.
      destruct (setitem m k fresh c) as [c' d] eqn:E2. eapply setitem_vals; eauto.
Qed.

Theorem dispose_conservation m ops c :
  let '(c', _, ds) := run m ops c in
  Permutation (all_stored m ops c ++ vals c) (vals c' ++ ds).
Proof.
  revert c. induction ops as [|p ops IH]; simpl; intros c.
  - rewrite app_nil_r. reflexivity.
  - pose proof (step_conserves m c p) as S. destruct (step m c p) as [[c' x] d] eqn:E.
    specialize (IH c'). simpl. destruct (run m ops c') as [[c'' xs] ds].
    rewrite <- app_assoc.
    transitivity (all_stored m ops c' ++ stored_by c p ++ vals c).
    { rewrite !app_assoc. apply Permutation_app_tail. apply Permutation_app_comm. }
    rewrite S. rewrite app_assoc. rewrite IH.
    rewrite <- !app_assoc. apply Permutation_app_head. apply Permutation_app_comm.
Qed.

(* ---------- a binding persists until its value is disposed ---------- *)
Lemma find_remove_other k k' c : k <> k' -> c_find k (c_remove k' c) = c_find k c.
Proof.
  intros Hne. induction c as [|[k0 v0] c IH]; simpl; [reflexivity|].
  destruct (N.eqb_spec k' k0) as [->|H1]; simpl.
  - destruct (N.eqb_spec k k0); [congruence | reflexivity].
  - destruct (k =? k0)%N; [reflexivity | assumption].
Qed.

Lemma find_app_not_in k c c2 : c_find k c = None -> c_find k (c ++ c2) = c_find k c2.
Proof.
  induction c as [|[k0 v0] c IH]; simpl; [reflexivity|].
  destruct (k =? k0)%N; [discriminate | assumption].
Qed.

Lemma find_app_in k c c2 v : c_find k c = Some v -> c_find k (c ++ c2) = Some v.
Proof.
  induction c as [|[k0 v0] c IH]; simpl; [discriminate|].
  destruct (k =? k0)%N; [tauto | assumption].
Qed.

Lemma find_remove_self k c : NoDup (keys c) -> c_find k (c_remove k c) = None.
Proof. intros H. apply c_find_none. apply remove_not_in. assumption. Qed.

Lemma getitem_persist k0 v0 k c v c' :
  NoDup (keys c) -> c_find k0 c = Some v0 -> getitem k c = Some (v, c') -> c_find k0 c' = Some v0.
Proof.
  intros Hn F. unfold getitem. destruct (c_find k c) eqn:E; [|discriminate]. intros [= <- <-].
  destruct (N.eq_dec k0 k) as [->|Hne].
  - rewrite find_app_not_in by (apply find_remove_self; assumption).
    simpl. rewrite N.eqb_refl. congruence.
  - apply find_app_in. rewrite find_remove_other by assumption. assumption.
Qed.

Lemma setitem_persist m k0 v0 k v c c' d :
  NoDup (keys c) -> c_find k0 c = Some v0 -> setitem m k v c = (c', d) ->
  c_find k0 c' = Some v0 \/ In v0 d.
Proof.
  intros Hn F. unfold setitem. destruct (c_find k c) eqn:E.
  - intros [= <- <-]. destruct (N.eq_dec k0 k) as [->|Hne].
    + right. left. congruence.
    + left. apply find_app_in. rewrite find_remove_other by assumption. assumption.
  - assert (Hne : k0 <> k) by congruence.
    assert (F' : c_find k0 (c ++ [(k, v)]) = Some v0) by (apply find_app_in; assumption).
    destruct (m <? length (c ++ [(k, v)])).
    + destruct (c ++ [(k, v)]) as [|[k1 v1] r] eqn:Ec; intros [= <- <-].
      * discriminate.
      * simpl in F'. destruct (k0 =? k1)%N; [right; left; congruence | left; assumption].
    + intros [= <- <-]. left. assumption.
Qed.

Lemma delitem_persist k0 v0 k c c' d :
  NoDup (keys c) -> c_find k0 c = Some v0 -> delitem k c = Some (c', d) ->
  c_find k0 c' = Some v0 \/ In v0 d.
Proof.
  intros Hn F. unfold delitem. destruct (c_find k c) eqn:E; [|discriminate]. intros [= <- <-].
  destruct (N.eq_dec k0 k) as [->|Hne].
  - right. left. congruence.
  - left. rewrite find_remove_other by assumption. assumption.
Qed.

Lemma step_persist m k0 v0 c p :
  Inv m c -> c_find k0 c = Some v0 ->
  let '(c', _, d) := step m c p in c_find k0 c' = Some v0 \/ In v0 d.
Proof.
  intros [Hn Hl] F. destruct p; simpl; auto.
  - destruct (getitem k c) as [[v c']|] eqn:E; [left; eapply getitem_persist; eauto | auto].
  - destruct (setitem m k v c) as [c' d] eqn:E. eapply setitem_persist; eauto.
  - destruct (delitem k c) as [[c' d]|] eqn:E; [eapply delitem_persist; eauto | auto].
  - right. apply c_find_some in F. change v0 with (snd (k0, v0)). apply in_map. assumption.
  - destruct (getitem k c) as [[v c']|] eqn:E; [left; eapply getitem_persist; eauto | auto].
  - destruct (getitem k c) as [[v c']|] eqn:E; [left; eapply getitem_persist; eauto | auto].
  - destruct (getitem k c) as [[v c']|] eqn:E; [|auto].
    assert (F' : c_find k0 c' = Some v0) by (eapply getitem_persist; eauto).
    assert (Hn' : NoDup (keys c')) by (eapply (Inv_getitem m); eauto; split; assumption).
    destruct (delitem k c') as [[c'' d]|] eqn:E2; [eapply delitem_persist; eauto | auto].
  - destruct (getitem k c) as [[x c']|] eqn:E; [left; eapply getitem_persist; eauto|].
    destruct (setitem m k v c) as [c' d] eqn:E2. eapply setitem_persist; eauto.
  - destruct (getitem k c) as [[x c']|] eqn:E; [left; eapply getitem_persist; eauto|].
    destruct (setitem m k fresh c) as [c' d] eqn:E2. eapply setitem_persist; eauto.
Qed.

Theorem run_persist m k0 v0 ops c :
  Inv m c -> c_find k0 c = Some v0 ->
  let '(c', _, ds) := run m ops c in c_find k0 c' = Some v0 \/ In v0 ds.
Proof.
  revert c. induction ops as [|p ops IH]; simpl; intros c H F; [auto|].
  pose proof (step_persist m k0 v0 c p H F) as S.
  pose proof (Inv_step m c p H) as H'.
  destruct (step m c p) as [[c' x] d] eqn:E. simpl in H'.
  specialize (IH c' H'). destruct (run m ops c') as [[c'' xs] ds].
  destruct S as [S|S]; [|right; apply in_app_iff; auto].
  destruct (IH S) as [IH'|IH']; [auto | right; apply in_app_iff; auto].
Qed.

(* get-or-create returns the cached value when the key is bound *)
Lemma get_or_create_hit m k v f c :
  c_find k c = Some v -> snd (fst (step m c (GetOrCreate k f))) = RVal v.
Proof. intros F. simpl. unfold getitem. rewrite F. reflexivity. Qed.

Lemma get_or_create_binds m k f c :
  1 <= m -> Inv m c ->
  let '(c', r, _) := step m c (GetOrCreate k f) in exists v, r = RVal v /\ c_find k c' = Some v.
Proof.
  intros Hm [Hn Hl]. simpl. unfold getitem. destruct (c_find k c) eqn:F.
  - exists v. split; [reflexivity|]. rewrite find_app_not_in by (apply find_remove_self; assumption).
    simpl. rewrite N.eqb_refl. reflexivity.
  - unfold setitem. rewrite F.
    assert (F' : c_find k (c ++ [(k, f)]) = Some f)
      by (rewrite find_app_not_in by assumption; simpl; rewrite N.eqb_refl; reflexivity).
    destruct (m <? length (c ++ [(k, f)])) eqn:Lt.
    + destruct (c ++ [(k, f)]) as [|[k1 v1] r] eqn:Ec; [destruct c; discriminate|].
      exists f. split; [reflexivity|]. simpl in F'.
      destruct (N.eqb_spec k k1) as [->|Hne]; [|assumption].
      (* the evicted head is k itself only if the container was empty, but then m >= 1 keeps it *)
      exfalso. destruct c as [|[k2 v2] c2]; simpl in Ec; inversion Ec; subst.
      * simpl in Lt. apply Nat.ltb_lt in Lt. lia.
      * simpl in F. rewrite N.eqb_refl in F. discriminate.
    + exists f. split; [reflexivity | assumption].
Qed.
