(* Proofs for C12, second part: the loops end, and they end with everything returned. *)
From Coq Require Import List NArith Arith Bool Lia.
From V Require Import model.ReadBody proofs.ReadBody_proofs.
Import ListNotations.

Section Term.
Variable D : dec.
Variable hdc dc fe : bool.
Variable raw : list N.

Notation wf := (wf D hdc dc raw).
Notation step_ok := (step_ok D hdc dc raw).
Notation produced := (produced D hdc dc raw).
Notation target := (target D hdc dc raw).

Definition drained (s : st) : Prop := s_pos s = length raw /\ s_buf s = [].

(* ---------- read(n) returns n bytes, or the body is exhausted ---------- *)
Lemma read_loop_post fuel n s flush0 : dc = true -> forall pos dpos buf hd last pos2 dpos2 buf2 hd2,
  wf (set_pos_dpos_buf s pos dpos buf hd (s_tape s)) ->
  (last = true /\ pos = length raw) \/ (last = false /\ (length raw - pos) + 2 <= fuel) ->
  read_loop D hdc dc fe fuel n pos dpos buf hd s last flush0 = (pos2, dpos2, buf2, hd2) ->
  n <= length buf2 \/ pos2 = length raw.
Proof.
  intros Hdc. induction fuel as [|f IH]; intros pos dpos buf hd last pos2 dpos2 buf2 hd2 Hwf Hpre H; cbn [read_loop] in H.
  - inversion H; subst. destruct Hpre as [[_ Hp]|[_ Hf]]; [right; exact Hp|lia].
  - destruct (Nat.leb_spec n (length buf)) as [Hle|Hgt]; cbn [orb] in H.
    + inversion H; subst. left. exact Hle.
    + destruct last.
      * inversion H; subst. destruct Hpre as [[_ Hp]|[Hl _]]; [right; exact Hp|discriminate].
      * destruct Hpre as [[Hl _]|[_ Hf]]; [discriminate|].
        set (s1 := set_pos_dpos_buf s pos dpos buf hd (s_tape s)) in *.
        destruct (fp_read s1 (Some n)) as [data pos1] eqn:Hfr.
        destruct (fp_read_spec D hdc dc raw s1 (Some n) data pos1 Hwf Hfr) as (H1 & H2 & H3 & H4 & H5 & _).
        set (fl := if fe then match data with [] => true | _ :: _ => false end else flush0) in *.
        destruct (decode_step D hdc dc s1 data pos1 fl) as [[out dpos1] hd1] eqn:Hd.
        destruct (decode_step_spec D hdc dc raw s1 data pos1 fl out dpos1 hd1 Hwf H1 H2 H3 Hd Hdc) as (Hw & _).
        cbn [set_pos_dpos_buf s_buf s_tape s1] in Hw.
        apply (IH pos1 dpos1 (buf ++ out) hd1 (match data with [] => true | _ :: _ => false end) pos2 dpos2 buf2 hd2 Hw); [|exact H].
        cbn [set_pos_dpos_buf s_pos s1] in H1, H4, H5.
        destruct data as [|d0 data'].
        -- left. split; [reflexivity|]. apply H4; [reflexivity|]. intros Hn. inversion Hn; subst. cbn in Hgt. lia.
        -- right. split; [reflexivity|]. cbn [length] in H5. lia.
Qed.

Lemma read_n_exact s n piece s' :
  wf s -> 1 <= n -> read D hdc dc true fe s (Some n) = (piece, s') -> length piece = n \/ drained s'.
Proof.
  intros Hwf Hn H. unfold read in H.
  destruct (Nat.leb_spec n (length (s_buf s))) as [Hle|Hgt].
  { inversion H; subst. left. rewrite firstn_length. lia. }
  destruct (fp_read s (Some n)) as [data pos1] eqn:Hf.
  destruct (fp_read_spec D hdc dc raw s (Some n) data pos1 Hwf Hf) as (H1 & H2 & H3 & H4 & H5 & _).
  assert (Hn0 : Some n <> Some 0) by (intros He; inversion He; lia).
  destruct (match2 _ _ _ _ _ H) as [(Hd0 & Hb0 & Heq)|Heq]; clear H.
  - (* nothing read, nothing buffered *)
    assert (Hpos : s_pos s = length raw) by (specialize (H4 Hd0 Hn0); rewrite Hd0 in H5; cbn [length] in H5; lia).
    destruct (fe && dc && match data with [] => negb (Nat.eqb n 0) | _ :: _ => false end).
    + destruct (decode_step D hdc dc s [] (s_pos s) true) as [[out dpos1] hd1]. inversion Heq; subst piece s'; clear Heq.
      destruct (Nat.le_gt_cases n (length out)) as [Hl|Hl]; [left; rewrite firstn_length; lia|].
      right. split; cbn [set_pos_dpos_buf s_pos s_buf]; [exact Hpos|]. apply skipn_all2. lia.
    + inversion Heq; subst piece s'. right. split; assumption.
  - destruct (bool_dec dc true) as [Hdc|Hdc].
    + assert (Hnd : negb dc = false) by (rewrite Hdc; reflexivity). rewrite Hnd in Heq.
      set (fl := match data with [] => negb (Nat.eqb n 0) | _ => false end) in *.
      destruct (decode_step D hdc dc s data pos1 fl) as [[out dpos1] hd1] eqn:Hd.
      destruct (decode_step_spec D hdc dc raw s data pos1 fl out dpos1 hd1 Hwf H1 H2 H3 Hd Hdc) as (Hw & _).
      destruct (read_loop D hdc dc fe (S (rest s)) n pos1 dpos1 (s_buf s ++ out) hd1 s _ fl) as [[[pos2 dpos2] buf2] hd2] eqn:Hl.
      assert (Hpre : ((match data with [] => true | _ :: _ => false end) = true /\ pos1 = length raw) \/
                     ((match data with [] => true | _ :: _ => false end) = false /\ (length raw - pos1) + 2 <= S (rest s))).
      { destruct data as [|d0 data']; [left; split; [reflexivity|apply H4; [reflexivity|exact Hn0]]|right; split; [reflexivity|]].
        unfold rest. destruct Hwf as (Hr & _). rewrite Hr. cbn [length] in H5. lia. }
      destruct (read_loop_post _ n s fl Hdc _ _ _ _ _ _ _ _ _ Hw Hpre Hl) as [Hge|Hend].
      * inversion Heq; subst piece s'. left. rewrite firstn_length. lia.
      * inversion Heq; subst piece s'; clear Heq.
        destruct (Nat.le_gt_cases n (length buf2)) as [Hl2|Hl2]; [left; rewrite firstn_length; lia|].
        right. split; cbn [set_pos_dpos_buf s_pos s_buf]; [exact Hend|apply skipn_all2; lia].
    + apply not_true_is_false in Hdc. rewrite Hdc in Heq. cbn [negb] in Heq. inversion Heq; subst piece s'; clear Heq.
      destruct (Nat.eq_dec (length data) n) as [He|He]; [left; exact He|right].
      destruct Hwf as (Hr & Hp & _ & Hb).
      assert (Hd : pos1 = s_pos s + Nat.min n (length raw - s_pos s)) by (unfold fp_read, rest in Hf; rewrite Hr in Hf; inversion Hf; reflexivity).
      split; cbn [set_pos_dpos_buf s_pos s_buf]; [lia|exact (Hb Hdc)].
Qed.

(* ---------- the measure: what is buffered plus what the decoder has not produced yet ---------- *)
Definition todo (s : st) : nat := length (s_buf s) + (length target - length (produced s)).

Lemma produced_le s : length (produced s) <= length target.
Proof. unfold ReadBody_proofs.produced, ReadBody_proofs.target. destruct (decoding hdc dc); rewrite firstn_length; lia. Qed.

Lemma step_todo s piece s' : step_ok s piece s' -> todo s = todo s' + length piece.
Proof.
  intros (_ & delta & Hp & Hb). unfold todo. pose proof (produced_le s'). pose proof (produced_le s).
  apply (f_equal (@length N)) in Hp. apply (f_equal (@length N)) in Hb. rewrite !app_length in *. lia.
Qed.

Lemma read_none_drained s piece s' : wf s -> read D hdc dc true fe s None = (piece, s') -> drained s'.
Proof. intros Hwf H. destruct (read_all_ok D hdc dc fe raw s piece s' Hwf H) as (_ & Hp & Hb). split; assumption. Qed.

(* stream() through read(): with enough fuel the loop stops only when the source is dry and nothing is buffered *)
Lemma stream_loop_drains fuel : forall s amt ps s',
  wf s -> amt <> Some 0 -> todo s < fuel ->
  stream_loop D hdc dc true fe fuel s amt = (ps, s') -> drained s'.
Proof.
  induction fuel as [|f IH]; intros s amt ps s' Hwf Ha Hfuel H; [lia|]. cbn [stream_loop] in H.
  destruct (read D hdc dc true fe s amt) as [piece s1] eqn:Hr.
  pose proof (read_ok D hdc dc fe raw s amt piece s1 Hwf Hr) as Hs1.
  pose proof (step_todo s piece s1 Hs1) as Hm.
  destruct piece as [|b0 piece].
  - assert (Hdr : drained s1).
    { destruct amt as [n|]; [|eapply read_none_drained; eassumption].
      assert (Hn : 1 <= n) by (destruct n; [exfalso; apply Ha; reflexivity|lia]).
      destruct (read_n_exact s n [] s1 Hwf Hn Hr) as [Hl|Hd]; [cbn in Hl; lia|exact Hd]. }
    destruct Hdr as [Hp Hb]. unfold rest in H. destruct (proj1 Hs1) as (Hraw & _). rewrite Hraw, Hp, Nat.sub_diag, Hb in H. cbn in H.
    inversion H; subst. split; assumption.
  - destruct (stream_loop D hdc dc true fe f s1 amt) as [more s2] eqn:Hm2. inversion H; subst ps s'; clear H.
    apply (IH s1 amt more s2 (proj1 Hs1) Ha); [cbn [length] in Hm; lia|exact Hm2].
Qed.

Lemma todo_bound s : wf s -> todo s <= rest s + length (d_full D) + length (s_buf s).
Proof.
  intros (Hr & Hp & _). unfold todo, ReadBody_proofs.produced, ReadBody_proofs.target, rest. rewrite Hr.
  destruct (decoding hdc dc); rewrite firstn_length; lia.
Qed.

(* stream(amt): whichever path it takes, it ends with the source dry and nothing buffered *)
Lemma stream_drains chunked s amt ps s' :
  wf s -> amt <> Some 0 -> (chunked = true -> s_pos s = 0 -> list_sum (s_chunks s) = length raw) ->
  stream D hdc dc true true fe chunked s amt = (ps, s') -> drained s'.
Proof.
  intros Hwf Ha Hch H. unfold stream in H. cbn [negb orb] in H.
  destruct (chunked && (Nat.eqb (s_pos s) 0 && match s_buf s with [] => true | _ => false end)) eqn:Hg.
  - apply andb_true_iff in Hg as [Hc Hg]. apply andb_true_iff in Hg as [Hp Hb].
    assert (Hb' : s_buf s = []) by (destruct (s_buf s); [reflexivity|discriminate]).
    apply Nat.eqb_eq in Hp.
    destruct (read_chunked_ok D hdc dc raw s amt ps s' Hwf Hb' H) as (_ & Hbuf & _ & Hpos).
    rewrite Hp, (Hch Hc Hp) in Hpos. split; [lia|exact Hbuf].
  - eapply stream_loop_drains; [exact Hwf|exact Ha| |exact H]. pose proof (todo_bound s Hwf). lia.
Qed.

(* the chunk vector is never touched by read / read1 *)
Lemma read_keeps_chunks s amt p s' : read D hdc dc true fe s amt = (p, s') -> s_chunks s' = s_chunks s.
Proof.
  unfold read. intros H.
  repeat match type of H with
         | context[match ?e with _ => _ end] => destruct e
         | context[if ?e then _ else _] => destruct e
         | context[let '(_, _) := ?e in _] => destruct e
         end; inversion H; reflexivity.
Qed.
Lemma read1_keeps_chunks s amt p s' : read1 D hdc dc s amt = (p, s') -> s_chunks s' = s_chunks s.
Proof.
  unfold read1. intros H.
  repeat match type of H with
         | context[match ?e with _ => _ end] => destruct e
         | context[if ?e then _ else _] => destruct e
         | context[let '(_, _) := ?e in _] => destruct e
         end; inversion H; reflexivity.
Qed.
Lemma run_calls_keeps_chunks cs : forall s ps s', run_calls D hdc dc true true fe s cs = (ps, s') -> s_chunks s' = s_chunks s.
Proof.
  induction cs as [|c cs IH]; intros s ps s' H; cbn [run_calls] in H; [inversion H; reflexivity|].
  destruct (match c with CRead a => read D hdc dc true fe s a | CRead1 a => read1 D hdc dc s a | CReadinto k => read D hdc dc true fe s (Some k) end)
    as [p sx] eqn:Hc.
  destruct (run_calls D hdc dc true true fe sx cs) as [ps' sy] eqn:Hr. inversion H; subst.
  rewrite (IH _ _ _ Hr). destruct c; [eapply read_keeps_chunks|eapply read1_keeps_chunks|eapply read_keeps_chunks]; exact Hc.
Qed.

Theorem stream_returns_everything chunked chunks tape cs amt ps fs s1 s2 :
  dec_ok D raw -> amt <> Some 0 -> (chunked = true -> list_sum chunks = length raw) ->
  run_calls D hdc dc true true fe (s0 raw chunks tape) cs = (ps, s1) ->
  run_finish D hdc dc true true fe chunked s1 (FStream amt) = (fs, s2) ->
  concat ps ++ concat fs = target.
Proof.
  intros Hok Ha Hch Hc Hf.
  pose proof (run_calls_ok D hdc dc fe raw cs _ _ _ (wf_s0 D hdc dc raw chunks tape Hok) Hc) as H1.
  pose proof (run_calls_keeps_chunks cs _ _ _ Hc) as Hchunks. cbn [s0 s_chunks] in Hchunks.
  assert (Hd : drained s2).
  { cbn [run_finish] in Hf. eapply stream_drains; [exact (proj1 H1)|exact Ha| |exact Hf]. intros Hc' _. rewrite Hchunks. apply Hch; exact Hc'. }
  destruct Hd as [Hp Hb].
  eapply (drained_returns_everything D hdc dc fe raw chunked chunks tape cs (FStream amt)); eauto; [intros a He; discriminate|right; discriminate].
Qed.
End Term.


