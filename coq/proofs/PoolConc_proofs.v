(* Proofs for C02 (model/PoolConc.v): invariants of every interleaving. *)
From Coq Require Import List Arith Bool Lia Permutation.
From V Require Import model.PoolConc.
Import ListNotations.

(* the connection a thread holds, and whether it holds one of the pool's slots *)
Definition held (th : thread) : list nat :=
  match t_pc th with
  | PUse c => [c]
  | PPutCheck (Some c) | PPutRead (Some c) | PPut (Some c) => [c]
  | _ => []
  end.
Definition token (th : thread) : nat :=
  match t_pc th with PUse _ | PPutCheck _ | PPutRead _ | PPut _ => 1 | _ => 0 end.
Definition qconns (q : list (option nat)) : list nat := flat_map (fun oc => match oc with Some c => [c] | None => [] end) q.
Definition helds (ths : list thread) : list nat := flat_map held ths.
Definition tokens (ths : list thread) : nat := list_sum (map token ths).

Lemma helds_app a b : helds (a ++ b) = helds a ++ helds b.
Proof. unfold helds. apply flat_map_app. Qed.
Lemma tokens_app a b : tokens (a ++ b) = tokens a + tokens b.
Proof. unfold tokens. rewrite map_app, list_sum_app. reflexivity. Qed.

Lemma split_nth {A} (l : list A) t d : t < length l -> l = firstn t l ++ nth t l d :: skipn (S t) l.
Proof.
  revert t; induction l as [|x l IH]; intros t H; [cbn in H; lia|].
  destruct t as [|t]; [reflexivity|]. cbn [firstn nth skipn app]. f_equal. apply IH. cbn in H. lia.
Qed.

Lemma held_le_token th : length (held th) <= token th.
Proof. unfold held, token. destruct (t_pc th) as [ | | | | c | oc | oc | oc | | | | | ]; try destruct oc; cbn; lia. Qed.
Lemma helds_le_tokens ths : length (helds ths) <= tokens ths.
Proof.
  induction ths as [|th r IH]; [cbn; lia|]. unfold helds, tokens in *. cbn [flat_map map]. rewrite app_length.
  change (list_sum (token th :: map token r)) with (token th + list_sum (map token r)).
  pose proof (held_le_token th). lia.
Qed.
Lemma qconns_le q : length (qconns q) <= length q.
Proof. unfold qconns. induction q as [|[c|] q IH]; cbn [flat_map app length] in *; lia. Qed.

Lemma in_remove_nat x c l : In x (remove_nat c l) <-> In x l /\ x <> c.
Proof.
  unfold remove_nat. rewrite filter_In. split; intros [H1 H2]; split; try assumption.
  - intros ->. rewrite Nat.eqb_refl in H2. discriminate.
  - apply negb_true_iff. apply Nat.eqb_neq. intros ->. apply H2. reflexivity.
Qed.
Lemma nodup_remove_nat c l : NoDup l -> NoDup (remove_nat c l).
Proof. intros H. unfold remove_nat. apply NoDup_filter. exact H. Qed.

Lemma qconns_repeat_none n : qconns (repeat None n) = [].
Proof. induction n as [|n IH]; [reflexivity|exact IH]. Qed.
Lemma helds_start (progs : list (list op)) : helds (map (fun ops => mkThread ops PStart false []) progs) = [].
Proof. induction progs as [|p r IH]; [reflexivity|exact IH]. Qed.
Lemma tokens_start (progs : list (list op)) : tokens (map (fun ops => mkThread ops PStart false []) progs) = 0.
Proof. induction progs as [|p r IH]; [reflexivity|exact IH]. Qed.

Lemma NoDup_app_tail {A} (l1 l2 : list A) : NoDup (l1 ++ l2) -> NoDup l2.
Proof. induction l1 as [|x l1 IH]; cbn [app]; [auto|]. intros H. apply IH. inversion H; assumption. Qed.

(* ---------- the invariant ---------- *)
Section Inv.
Variable ws : bool.
Variable maxsize : nat.
Variable block : bool.

Definition alive (st : state) : list nat := qconns (s_q st) ++ helds (s_threads st).

Record inv (st : state) : Prop := mkInv {
  i_excl : NoDup (alive st);                                         (* a connection is idle once, or held by one thread *)
  i_open : forall c, In c (s_open st) -> In c (alive st);            (* every open connection is idle in the pool or held *)
  i_open_nodup : NoDup (s_open st);
  i_fresh : forall c, In c (alive st) -> c < s_next st;
  i_open_fresh : forall c, In c (s_open st) -> c < s_next st;
  i_slots : block = true -> length (s_q st) + tokens (s_threads st) <= maxsize;
  i_max : block = true -> s_max_open st <= maxsize
}.

Lemma inv_init progs : inv (init maxsize progs).
Proof.
  pose proof (qconns_repeat_none maxsize) as Hq. pose proof (helds_start progs) as Hh. pose proof (tokens_start progs) as Ht.
  constructor; unfold alive, init; cbn [s_q s_threads s_open s_next s_max_open]; rewrite ?Hq, ?Hh, ?Ht; cbn.
  - constructor.
  - intros c [].
  - constructor.
  - intros c [].
  - intros c [].
  - intros _. rewrite repeat_length. lia.
  - intros _. lia.
Qed.

(* how the alive list and the slot count change when thread t moves from th to th' *)
Lemma threads_split st t : t < length (s_threads st) ->
  exists A B, s_threads st = A ++ get_thread st t :: B /\ forall th', set_thread st t th' = A ++ th' :: B.
Proof.
  intros H. exists (firstn t (s_threads st)), (skipn (S t) (s_threads st)). split; [|intros th'; reflexivity].
  unfold get_thread. apply split_nth. exact H.
Qed.

Lemma alive_perm q A th B :
  Permutation (qconns q ++ helds (A ++ th :: B)) (held th ++ (qconns q ++ helds A ++ helds B)).
Proof.
  rewrite helds_app. unfold helds at 2. cbn [flat_map]. fold (helds B).
  rewrite (app_assoc (qconns q) (helds A)). rewrite (app_assoc (qconns q) (helds A) (helds B)).
  apply Permutation_app_swap_app.
Qed.


Definition others (q : list (option nat)) (A B : list thread) : list nat := qconns q ++ helds A ++ helds B.

Lemma tokens_split A th B : tokens (A ++ th :: B) = token th + tokens A + tokens B.
Proof. rewrite tokens_app. unfold tokens at 2. cbn [map]. change (list_sum (token th :: map token B)) with (token th + tokens B). lia. Qed.

(* the invariant, seen from thread th *)
Lemma inv_decompose st A th B : inv st -> s_threads st = A ++ th :: B ->
  NoDup (held th ++ others (s_q st) A B) /\
  (forall c, In c (s_open st) -> In c (held th ++ others (s_q st) A B)) /\
  NoDup (s_open st) /\
  (forall c, In c (held th ++ others (s_q st) A B) -> c < s_next st) /\
  (forall c, In c (s_open st) -> c < s_next st) /\
  (block = true -> length (s_q st) + (token th + tokens A + tokens B) <= maxsize) /\
  (block = true -> s_max_open st <= maxsize).
Proof.
  intros [I1 I2 I3 I4 I5 I6 I7] Hs. unfold alive in *. rewrite Hs in *.
  pose proof (alive_perm (s_q st) A th B) as Hp. fold (others (s_q st) A B) in Hp.
  split; [eapply Permutation_NoDup; [exact Hp|exact I1]|].
  split; [intros c Hc; eapply Permutation_in; [exact Hp|apply I2; exact Hc]|].
  split; [exact I3|].
  split; [intros c Hc; apply I4; eapply Permutation_in; [apply Permutation_sym; exact Hp|exact Hc]|].
  split; [exact I5|]. split; [|exact I7]. intros Hb. rewrite <- tokens_split. apply I6; exact Hb.
Qed.

Lemma inv_compose st' A th' B :
  s_threads st' = A ++ th' :: B ->
  NoDup (held th' ++ others (s_q st') A B) ->
  (forall c, In c (s_open st') -> In c (held th' ++ others (s_q st') A B)) ->
  NoDup (s_open st') ->
  (forall c, In c (held th' ++ others (s_q st') A B) -> c < s_next st') ->
  (forall c, In c (s_open st') -> c < s_next st') ->
  (block = true -> length (s_q st') + (token th' + tokens A + tokens B) <= maxsize) ->
  (block = true -> s_max_open st' <= maxsize) ->
  inv st'.
Proof.
  intros Hs P1 P2 P3 P4 P5 P6 P7.
  pose proof (alive_perm (s_q st') A th' B) as Hp. fold (others (s_q st') A B) in Hp.
  constructor; unfold alive; rewrite ?Hs.
  - eapply Permutation_NoDup; [apply Permutation_sym; exact Hp|exact P1].
  - intros c Hc. eapply Permutation_in; [apply Permutation_sym; exact Hp|apply P2; exact Hc].
  - exact P3.
  - intros c Hc. apply P4. eapply Permutation_in; [exact Hp|exact Hc].
  - exact P5.
  - intros Hb. rewrite tokens_split. apply P6; exact Hb.
  - exact P7.
Qed.

(* a step that leaves the queue, the open set and the counters alone and does not change what the thread holds *)
Lemma inv_same_held st A th B th' :
  inv st -> s_threads st = A ++ th :: B -> held th' = held th -> token th' = token th ->
  inv (mkState (s_q st) (s_closed st) (A ++ th' :: B) (s_open st) (s_next st) (s_max_open st)).
Proof.
  intros Hi Hs Hh Ht. destruct (inv_decompose st A th B Hi Hs) as (Q1 & Q2 & Q3 & Q4 & Q5 & Q6 & Q7).
  apply (inv_compose _ A th' B); cbn [s_threads s_q s_open s_next s_max_open]; rewrite ?Hh, ?Ht; auto.
Qed.

Lemma held_finish th o : held (finish th o) = [] /\ token (finish th o) = 0.
Proof. unfold finish. destruct (tl (t_ops th)); split; reflexivity. Qed.
Lemma held_complete th : held (complete th) = [] /\ token (complete th) = 0.
Proof. unfold complete. destruct (t_ops th) as [|[| | |] r]; try apply held_finish. split; reflexivity. Qed.
Lemma held_at_pc th p : held (at_pc th p) = held (mkThread [] p false []) /\ token (at_pc th p) = token (mkThread [] p false []).
Proof. split; reflexivity. Qed.

Lemma others_cons_some c q A B : others (Some c :: q) A B = c :: others q A B.
Proof. reflexivity. Qed.
Lemma others_cons_none q A B : others (None :: q) A B = others q A B.
Proof. reflexivity. Qed.
Lemma others_length q A B : length (others q A B) <= length (qconns q) + tokens A + tokens B.
Proof. unfold others. rewrite !app_length. pose proof (helds_le_tokens A). pose proof (helds_le_tokens B). lia. Qed.

(* a thread gives up what it held (closing it, or having pushed it elsewhere is handled separately) *)
Lemma drop_thread_held st A th B th' oc closed' :
  inv st -> s_threads st = A ++ th :: B ->
  held th = match oc with Some c => [c] | None => [] end -> held th' = [] -> token th' <= token th ->
  inv (mkState (s_q st) closed' (A ++ th' :: B) (close_opt (s_open st) oc) (s_next st) (s_max_open st)).
Proof.
  intros Hi Hs Hh Hh' Ht.
  destruct (inv_decompose st A th B Hi Hs) as (Q1 & Q2 & Q3 & Q4 & Q5 & Q6 & Q7).
  apply (inv_compose _ A th' B); cbn [s_threads s_q s_open s_next s_max_open]; rewrite ?Hh'; cbn [app].
  - reflexivity.
  - apply NoDup_app_tail in Q1. exact Q1.
  - intros x Hx. destruct oc as [c|]; cbn [close_opt] in Hx.
    + apply in_remove_nat in Hx as [Hx Hne]. specialize (Q2 x Hx). rewrite Hh in Q2. cbn [app] in Q2.
      destruct Q2 as [->|Q2]; [contradiction|exact Q2].
    + specialize (Q2 x Hx). rewrite Hh in Q2. exact Q2.
  - destruct oc; cbn [close_opt]; [apply nodup_remove_nat|]; exact Q3.
  - intros x Hx. apply Q4. apply in_or_app. right. exact Hx.
  - intros x Hx. apply Q5. destruct oc; cbn [close_opt] in Hx; [apply in_remove_nat in Hx as [Hx _]|]; exact Hx.
  - intros Hb. specialize (Q6 Hb). lia.
  - exact Q7.
Qed.

(* close() takes one entry out of the queue *)
Lemma drain_one st A th B oc q' :
  inv st -> s_threads st = A ++ th :: B -> s_q st = oc :: q' ->
  inv (mkState q' (s_closed st) (A ++ th :: B) (close_opt (s_open st) oc) (s_next st) (s_max_open st)).
Proof.
  intros Hi Hs Hq.
  destruct (inv_decompose st A th B Hi Hs) as (Q1 & Q2 & Q3 & Q4 & Q5 & Q6 & Q7). rewrite Hq in *.
  apply (inv_compose _ A th B); cbn [s_threads s_q s_open s_next s_max_open].
  - reflexivity.
  - destruct oc as [c|]; [rewrite others_cons_some in Q1; apply NoDup_remove_1 in Q1; exact Q1|exact Q1].
  - intros x Hx. destruct oc as [c|]; cbn [close_opt] in Hx.
    + apply in_remove_nat in Hx as [Hx Hne]. specialize (Q2 x Hx). rewrite others_cons_some in Q2.
      apply in_app_or in Q2 as [Q2|[->|Q2]]; [apply in_or_app; left; exact Q2|contradiction|apply in_or_app; right; exact Q2].
    + exact (Q2 x Hx).
  - destruct oc; cbn [close_opt]; [apply nodup_remove_nat|]; exact Q3.
  - intros x Hx. apply Q4. destruct oc as [c|]; [rewrite others_cons_some|exact Hx].
    apply in_app_or in Hx as [Hx|Hx]; apply in_or_app; [left; exact Hx|right; right; exact Hx].
  - intros x Hx. apply Q5. destruct oc; cbn [close_opt] in Hx; [apply in_remove_nat in Hx as [Hx _]|]; exact Hx.
  - intros Hb. specialize (Q6 Hb). cbn [length] in Q6. lia.
  - exact Q7.
Qed.

(* a thread takes an idle connection from the top of the queue *)
Lemma take_idle st A th B th' c q' :
  inv st -> s_threads st = A ++ th :: B -> s_q st = Some c :: q' -> held th = [] -> token th = 0 -> held th' = [c] -> token th' = 1 ->
  inv (mkState q' (s_closed st) (A ++ th' :: B) (s_open st) (s_next st) (s_max_open st)).
Proof.
  intros Hi Hs Hq Hh Ht Hh' Ht'.
  destruct (inv_decompose st A th B Hi Hs) as (Q1 & Q2 & Q3 & Q4 & Q5 & Q6 & Q7). rewrite Hq, Hh, Ht in *. rewrite others_cons_some in *.
  apply (inv_compose _ A th' B); cbn [s_threads s_q s_open s_next s_max_open]; rewrite ?Hh', ?Ht'; cbn [app] in *; auto.
  intros Hb. specialize (Q6 Hb). cbn [length] in Q6. lia.
Qed.

(* a thread opens a new connection (it took a free slot, or the queue of a non-blocking pool was empty) *)
Lemma open_new st A th B th' q' :
  q' = tl (s_q st) ->
  inv st -> s_threads st = A ++ th :: B -> (match s_q st with Some _ :: _ => False | _ => True end) ->
  (block = true -> s_q st <> []) ->
  held th = [] -> token th = 0 -> held th' = [s_next st] -> token th' = 1 ->
  inv (mkState q' (s_closed st) (A ++ th' :: B) (s_next st :: s_open st) (S (s_next st))
               (Nat.max (s_max_open st) (length (s_next st :: s_open st)))).
Proof.
  intros -> Hi Hs Hhead Hne Hh Ht Hh' Ht'.
  destruct (inv_decompose st A th B Hi Hs) as (Q1 & Q2 & Q3 & Q4 & Q5 & Q6 & Q7). rewrite Hh, Ht in *. cbn [app] in *.
  assert (Ho : others (tl (s_q st)) A B = others (s_q st) A B).
  { destruct (s_q st) as [|[c|] q']; [reflexivity|contradiction|reflexivity]. }
  apply (inv_compose _ A th' B); cbn [s_threads s_q s_open s_next s_max_open]; rewrite ?Hh', ?Ht', ?Ho; cbn [app].
  - reflexivity.
  - constructor; [|exact Q1]. intros Hin. specialize (Q4 _ Hin). lia.
  - intros x [<-|Hx]; [left; reflexivity|right; exact (Q2 x Hx)].
  - constructor; [|exact Q3]. intros Hin. specialize (Q5 _ Hin). lia.
  - intros x [<-|Hx]; [lia|specialize (Q4 x Hx); lia].
  - intros x [<-|Hx]; [lia|specialize (Q5 x Hx); lia].
  - intros Hb. specialize (Q6 Hb). specialize (Hne Hb). destruct (s_q st) as [|e q']; [contradiction|]. cbn [tl length] in *. lia.
  - intros Hb. specialize (Q6 Hb). specialize (Q7 Hb). specialize (Hne Hb).
    destruct (s_q st) as [|[c|] q'] eqn:Hq; [contradiction|contradiction|].
    assert (Hlen : length (s_open st) <= length (others (None :: q') A B)).
    { apply NoDup_incl_length; [exact Q3|]. intros x Hx. exact (Q2 x Hx). }
    pose proof (others_length (None :: q') A B) as Hol. pose proof (qconns_le q') as Hql.
    change (qconns (None :: q')) with (qconns q') in Hol. cbn [length] in *. lia.
Qed.

(* a thread puts what it holds on top of the queue *)
Lemma push_back st A th B th' oc :
  inv st -> s_threads st = A ++ th :: B -> held th = match oc with Some c => [c] | None => [] end -> token th = 1 ->
  held th' = [] -> token th' = 0 ->
  inv (mkState (oc :: s_q st) (s_closed st) (A ++ th' :: B) (s_open st) (s_next st) (s_max_open st)).
Proof.
  intros Hi Hs Hh Ht Hh' Ht'.
  destruct (inv_decompose st A th B Hi Hs) as (Q1 & Q2 & Q3 & Q4 & Q5 & Q6 & Q7). rewrite Hh, Ht in *.
  apply (inv_compose _ A th' B); cbn [s_threads s_q s_open s_next s_max_open]; rewrite ?Hh', ?Ht'; cbn [app].
  - reflexivity.
  - destruct oc as [c|]; [rewrite others_cons_some|rewrite others_cons_none]; exact Q1.
  - intros x Hx. specialize (Q2 x Hx). destruct oc as [c|]; [rewrite others_cons_some|rewrite others_cons_none]; exact Q2.
  - exact Q3.
  - intros x Hx. apply Q4. destruct oc as [c|]; [rewrite others_cons_some in Hx|rewrite others_cons_none in Hx]; exact Hx.
  - exact Q5.
  - intros Hb. specialize (Q6 Hb). cbn [length]. lia.
  - exact Q7.
Qed.

Lemma inv_closed q c1 c2 ths op nx mx : inv (mkState q c1 ths op nx mx) -> inv (mkState q c2 ths op nx mx).
Proof. intros [I1 I2 I3 I4 I5 I6 I7]. constructor; assumption. Qed.

Ltac held_tac Hpc :=
  cbv iota beta;
  repeat match goal with
         | |- context[held (finish ?th ?o)] => rewrite (proj1 (held_finish th o))
         | |- context[token (finish ?th ?o)] => rewrite (proj2 (held_finish th o))
         | |- context[held (complete ?th)] => rewrite (proj1 (held_complete th))
         | |- context[token (complete ?th)] => rewrite (proj2 (held_complete th))
         end;
  unfold held, token; cbn [t_pc at_pc]; rewrite ?Hpc; auto.

Lemma step_inv st t : inv st -> runnable block st t = true -> inv (step ws maxsize block st t).
Proof.
  intros Hi Hrun.
  destruct (Nat.lt_ge_cases t (length (s_threads st))) as [Hlt|Hge].
  2:{ unfold step, get_thread. rewrite (nth_overflow _ _ Hge). exact Hi. }
  destruct (threads_split st t Hlt) as (A & B & Hs & Hset).
  unfold runnable in Hrun. unfold step. set (th := get_thread st t) in *. rewrite !Hset.
  destruct (t_pc th) eqn:Hpc.
  all: rewrite ?Hset.
  - (* PStart *)
    destruct (t_ops th) as [|[| | |] ops]; apply (inv_closed _ (s_closed st)); apply (inv_same_held st A th B); auto; held_tac Hpc.
  - (* PGetCheck *)
    destruct (s_closed st); apply (inv_closed _ (s_closed st)); apply (inv_same_held st A th B); auto; held_tac Hpc.
  - (* PGetRead *)
    destruct (s_closed st); apply (inv_closed _ (s_closed st)); apply (inv_same_held st A th B); auto; held_tac Hpc.
  - (* PGet *)
    destruct (s_q st) as [|[c|] q'] eqn:Hq; rewrite ?Hset.
    + apply (inv_closed _ (s_closed st)); apply (open_new st A th B); auto; try (rewrite Hq; reflexivity); try (rewrite Hq; exact I); try held_tac Hpc.
      intros Hb. rewrite Hb in Hrun. discriminate.
    + apply (inv_closed _ (s_closed st)); apply (take_idle st A th B _ c q'); auto; held_tac Hpc.
    + apply (inv_closed _ (s_closed st)); apply (open_new st A th B); auto; try (rewrite Hq; reflexivity); try (rewrite Hq; exact I); try held_tac Hpc.
      intros _. rewrite Hq. discriminate.
  - (* PUse c *)
    destruct (t_fail th); rewrite ?Hset.
    + apply (drop_thread_held st A th B _ (Some c)); auto; held_tac Hpc.
    + apply (inv_closed _ (s_closed st)); apply (inv_same_held st A th B); auto; held_tac Hpc.
  - (* PPutCheck oc *)
    destruct (s_closed st); rewrite ?Hset.
    + apply (drop_thread_held st A th B _ oc); auto; held_tac Hpc; destruct oc; auto.
    + apply (inv_closed _ (s_closed st)); apply (inv_same_held st A th B); auto; held_tac Hpc.
  - (* PPutRead oc *)
    destruct (s_closed st); rewrite ?Hset.
    + apply (drop_thread_held st A th B _ oc); auto; held_tac Hpc; destruct oc; auto.
    + apply (inv_closed _ (s_closed st)); apply (inv_same_held st A th B); auto; held_tac Hpc.
  - (* PPut oc *)
    destruct (Nat.ltb (length (s_q st)) maxsize); rewrite ?Hset.
    + apply (inv_closed _ (s_closed st)); apply (push_back st A th B _ oc); auto; held_tac Hpc; destruct oc; auto.
    + destruct block; apply (drop_thread_held st A th B _ oc); auto; held_tac Hpc; destruct oc; auto.
  - (* PWarn *)
    destruct (s_closed st && negb ws); apply (inv_closed _ (s_closed st)); apply (inv_same_held st A th B); auto; held_tac Hpc.
  - (* PCloseCheck *)
    destruct (s_closed st); apply (inv_closed _ (s_closed st)); apply (inv_same_held st A th B); auto; held_tac Hpc.
  - (* PCloseSwap *)
    apply (inv_closed _ (s_closed st)); apply (inv_same_held st A th B); auto; held_tac Hpc.
  - (* PDrain *)
    destruct (s_q st) as [|oc q'] eqn:Hq; rewrite ?Hset.
    + rewrite <- Hq. apply (inv_closed _ (s_closed st)); apply (inv_same_held st A th B); auto; held_tac Hpc.
    + rewrite Hs. apply (inv_closed _ (s_closed st)); apply (drain_one st A th B oc q'); auto.
  - (* PIdle *) exact Hi.
Qed.

(* every state reached by any schedule satisfies the invariant *)
Theorem run_inv fuel : forall st sched, inv st -> inv (run ws fuel maxsize block st sched).
Proof.
  induction fuel as [|f IH]; intros st sched Hi; cbn [run]; [exact Hi|].
  destruct (pick block st sched) as [[t rest]|] eqn:Hp.
  - apply IH. apply step_inv; [exact Hi|].
    clear - Hp. induction sched as [|x r IHs]; cbn [pick] in Hp; [discriminate|].
    destruct (runnable block st x) eqn:Hr; [inversion Hp; subst; exact Hr|apply IHs; exact Hp].
  - destruct (first_runnable block st (length (s_threads st)) 0) as [t|] eqn:Hf; [|exact Hi].
    apply IH. apply step_inv; [exact Hi|].
    clear - Hf. revert Hf. generalize 0 as k. induction (length (s_threads st)) as [|n IHn]; intros k Hf; cbn [first_runnable] in Hf; [discriminate|].
    destruct (runnable block st k) eqn:Hr; [inversion Hf; subst; exact Hr|apply (IHn (S k)); exact Hf].
Qed.
End Inv.

(* ---------- consequences ---------- *)
Theorem reachable_exclusive ws maxsize block progs fuel sched :
  let st := run ws fuel maxsize block (init maxsize progs) sched in
  NoDup (qconns (s_q st) ++ helds (s_threads st)) /\
  (forall c, In c (s_open st) -> In c (qconns (s_q st) ++ helds (s_threads st))) /\
  (block = true -> length (s_open st) <= maxsize /\ s_max_open st <= maxsize).
Proof.
  intros st. pose proof (run_inv ws maxsize block fuel (init maxsize progs) sched (inv_init maxsize block progs)) as Hi.
  fold st in Hi. destruct Hi as [I1 I2 I3 I4 I5 I6 I7]. unfold alive in *.
  split; [exact I1|]. split; [exact I2|]. intros Hb. split; [|exact (I7 Hb)].
  specialize (I6 Hb).
  assert (Hlen : length (s_open st) <= length (qconns (s_q st) ++ helds (s_threads st))) by (apply NoDup_incl_length; [exact I3|exact I2]).
  rewrite app_length in Hlen. pose proof (qconns_le (s_q st)). pose proof (helds_le_tokens (s_threads st)). lia.
Qed.

(* with the warning reading self.pool safely no operation ever ends in AttributeError *)
Definition no_internal_error (st : state) : Prop := forall th, In th (s_threads st) -> ~ In 3 (t_outs th).

Lemma finish_outs th o : t_outs (finish th o) = t_outs th ++ [o].
Proof. unfold finish. destruct (tl (t_ops th)); reflexivity. Qed.

Lemma in_firstn' {A} (x : A) n l : In x (firstn n l) -> In x l.
Proof. revert n; induction l as [|y l IH]; intros [|n] H; cbn [firstn] in H; try contradiction. destruct H as [->|H]; [left; reflexivity|right; eapply IH; exact H]. Qed.
Lemma in_skipn' {A} (x : A) n l : In x (skipn n l) -> In x l.
Proof. revert n; induction l as [|y l IH]; intros [|n] H; cbn [skipn] in H; try contradiction; try exact H. right. eapply IH; exact H. Qed.

Lemma in_set_thread st t th' x : In x (set_thread st t th') -> x = th' \/ In x (s_threads st).
Proof.
  unfold set_thread. intros H. apply in_app_or in H as [H|[H|H]].
  - right. eapply in_firstn'; exact H.
  - left. symmetry. exact H.
  - right. eapply in_skipn'; exact H.
Qed.

Lemma get_thread_in_or_idle st t : In (get_thread st t) (s_threads st) \/ get_thread st t = idle_thread.
Proof. unfold get_thread. destruct (Nat.lt_ge_cases t (length (s_threads st))) as [H|H]; [left; apply nth_In; exact H|right; apply nth_overflow; exact H]. Qed.

Lemma step_no_internal_error maxsize block st t :
  no_internal_error st -> no_internal_error (step true maxsize block st t).
Proof.
  intros Hn. unfold no_internal_error in *.
  assert (Hth : ~ In 3 (t_outs (get_thread st t))).
  { destruct (get_thread_in_or_idle st t) as [H|H]; [apply Hn; exact H|rewrite H; cbn; tauto]. }
  assert (Hfin : forall o, o <> 3 -> ~ In 3 (t_outs (finish (get_thread st t) o))).
  { intros o Ho Hin. rewrite finish_outs in Hin. apply in_app_or in Hin as [Hin|[Hin|[]]]; [exact (Hth Hin)|exact (Ho Hin)]. }
  assert (Hcomp : ~ In 3 (t_outs (complete (get_thread st t)))).
  { unfold complete. destruct (t_ops (get_thread st t)) as [|[| | |] r]; try (destruct (t_fail (get_thread st t)); apply Hfin; discriminate). exact Hth. }
  assert (Hat : forall p, ~ In 3 (t_outs (at_pc (get_thread st t) p))) by (intros p; exact Hth).
  assert (Hmk : forall p f, ~ In 3 (t_outs (mkThread (t_ops (get_thread st t)) p f (t_outs (get_thread st t))))) by (intros; exact Hth).
  unfold step. set (th := get_thread st t) in *.
  intros x Hx.
  assert (Hgen : forall th', ~ In 3 (t_outs th') -> In x (set_thread st t th') -> ~ In 3 (t_outs x)).
  { intros th' Hok Hin. apply in_set_thread in Hin as [->|Hin]; [exact Hok|apply Hn; exact Hin]. }
  destruct (t_pc th); cbn [s_threads negb] in Hx; rewrite ?andb_false_r in Hx;
    repeat match type of Hx with
           | context[match ?e with _ => _ end] => destruct e; cbn [s_threads] in Hx
           | context[if ?e then _ else _] => destruct e; cbn [s_threads] in Hx
           end;
    try (eapply Hgen; [|exact Hx]; first [apply Hat | apply Hmk | apply Hcomp | apply Hfin; discriminate | destruct (t_fail th); apply Hfin; discriminate]);
    try (apply Hn; exact Hx).
Qed.

Theorem no_attribute_error maxsize block progs fuel sched :
  no_internal_error (run true fuel maxsize block (init maxsize progs) sched).
Proof.
  assert (H0 : no_internal_error (init maxsize progs)).
  { unfold no_internal_error, init. cbn [s_threads]. intros th Hin. apply in_map_iff in Hin as (ops & <- & _). cbn. tauto. }
  revert H0. generalize (init maxsize progs) as st. revert sched.
  induction fuel as [|f IH]; intros sched st H0; cbn [run]; [exact H0|].
  destruct (pick block st sched) as [[t rest]|]; [apply IH; apply step_no_internal_error; exact H0|].
  destruct (first_runnable block st (length (s_threads st)) 0) as [t|]; [apply IH; apply step_no_internal_error; exact H0|exact H0].
Qed.

(* ---------- progress: without close() nobody waits for ever ---------- *)
Definition close_pc (p : pc) : bool := match p with PCloseCheck | PCloseSwap | PDrain => true | _ => false end.
Definition calm (th : thread) : Prop := ~ In Close (t_ops th) /\ close_pc (t_pc th) = false.

Record inv2 (maxsize : nat) (block : bool) (st : state) : Prop := mkInv2 {
  j_open_pool : s_closed st = false;
  j_calm : Forall calm (s_threads st);
  j_exact : block = true -> length (s_q st) + tokens (s_threads st) = maxsize
}.

Lemma calm_finish th o : calm th -> calm (finish th o).
Proof.
  intros [Hc _]. unfold finish. destruct (t_ops th) as [|x r]; cbn [tl]; [split; [intros []|reflexivity]|].
  destruct r as [|y r']; [split; [intros []|reflexivity]|]. split; [|reflexivity]. cbn [t_ops]. intros Hin. apply Hc. right. exact Hin.
Qed.
Lemma token_finish th o : token (finish th o) = 0.
Proof. unfold finish. destruct (tl (t_ops th)); reflexivity. Qed.

Lemma calm_complete th : calm th -> calm (complete th).
Proof.
  intros Hc. unfold complete. destruct (t_ops th) as [|[| | |] r] eqn:Ho; try (apply calm_finish; exact Hc).
  destruct Hc as [Hc _]. split; [|reflexivity]. cbn [t_ops]. rewrite Ho in Hc. intros [H|H]; [discriminate|]. apply Hc. right. exact H.
Qed.
Lemma token_complete th : token (complete th) = 0.
Proof. unfold complete. destruct (t_ops th) as [|[| | |] r]; try apply token_finish. reflexivity. Qed.

Lemma forall_split_calm A th B th' : Forall calm (A ++ th :: B) -> calm th' -> Forall calm (A ++ th' :: B).
Proof.
  intros H Hc. apply Forall_app in H as [HA HB]. apply Forall_cons_iff in HB as [_ HB].
  apply Forall_app. split; [exact HA|constructor; assumption].
Qed.

Lemma step_inv2 ws maxsize block st t :
  inv2 maxsize block st -> runnable block st t = true -> inv2 maxsize block (step ws maxsize block st t).
Proof.
  intros [J1 J2 J3] Hrun.
  destruct (Nat.lt_ge_cases t (length (s_threads st))) as [Hlt|Hge].
  2:{ unfold step, get_thread. rewrite (nth_overflow _ _ Hge). constructor; assumption. }
  destruct (threads_split st t Hlt) as (A & B & Hs & Hset).
  assert (Hth : calm (get_thread st t)).
  { rewrite Hs in J2. apply Forall_app in J2 as [_ J2]. apply Forall_cons_iff in J2 as [J2 _]. exact J2. }
  assert (Htok : block = true -> length (s_q st) + (token (get_thread st t) + tokens A + tokens B) = maxsize)
    by (intros Hb; rewrite <- tokens_split, <- Hs; apply J3; exact Hb).
  rewrite Hs in J2.
  unfold runnable in Hrun. unfold step. set (th := get_thread st t) in *. rewrite J1.
  assert (Hat : forall p, close_pc p = false -> calm (at_pc th p)) by (intros p Hp; destruct Hth as [Hc _]; split; assumption).
  assert (Hmk : forall p f, close_pc p = false -> calm (mkThread (t_ops th) p f (t_outs th))) by (intros p f Hp; destruct Hth as [Hc _]; split; assumption).
  destruct (t_pc th) eqn:Hpc; rewrite ?Hset; cbn [negb andb].
  - (* PStart *)
    destruct (t_ops th) as [|[| | |] ops] eqn:Hops.
    + constructor; cbn [s_closed s_threads s_q]; [reflexivity|apply (forall_split_calm A th B); [exact J2|apply Hat; reflexivity]|].
      intros Hb. rewrite tokens_split. specialize (Htok Hb). unfold token in *. rewrite Hpc in Htok. cbn [t_pc at_pc]. exact Htok.
    + constructor; cbn [s_closed s_threads s_q]; [reflexivity|apply (forall_split_calm A th B); [exact J2|apply Hmk; reflexivity]|].
      intros Hb. rewrite tokens_split. specialize (Htok Hb). unfold token in *. rewrite Hpc in Htok. cbn [t_pc]. exact Htok.
    + constructor; cbn [s_closed s_threads s_q]; [reflexivity|apply (forall_split_calm A th B); [exact J2|apply Hmk; reflexivity]|].
      intros Hb. rewrite tokens_split. specialize (Htok Hb). unfold token in *. rewrite Hpc in Htok. cbn [t_pc]. exact Htok.
    + exfalso. destruct Hth as [Hc _]. apply Hc. rewrite Hops. left. reflexivity.
    + constructor; cbn [s_closed s_threads s_q]; [reflexivity|apply (forall_split_calm A th B); [exact J2|apply Hmk; reflexivity]|].
      intros Hb. rewrite tokens_split. specialize (Htok Hb). unfold token in *. rewrite Hpc in Htok. cbn [t_pc]. exact Htok.
  - (* PGetCheck *)
    constructor; cbn [s_closed s_threads s_q]; [reflexivity|apply (forall_split_calm A th B); [exact J2|apply Hat; reflexivity]|].
    intros Hb. rewrite tokens_split. specialize (Htok Hb). unfold token in *. rewrite Hpc in Htok. cbn [t_pc at_pc]. exact Htok.
  - (* PGetRead *)
    constructor; cbn [s_closed s_threads s_q]; [reflexivity|apply (forall_split_calm A th B); [exact J2|apply Hat; reflexivity]|].
    intros Hb. rewrite tokens_split. specialize (Htok Hb). unfold token in *. rewrite Hpc in Htok. cbn [t_pc at_pc]. exact Htok.
  - (* PGet *)
    destruct (s_q st) as [|[c|] q'] eqn:Hq; rewrite ?Hset.
    + constructor; cbn [s_closed s_threads s_q tl]; [reflexivity|apply (forall_split_calm A th B); [exact J2|apply Hat; reflexivity]|].
      intros Hb. rewrite Hb in Hrun. discriminate.
    + constructor; cbn [s_closed s_threads s_q]; [reflexivity|apply (forall_split_calm A th B); [exact J2|apply Hat; reflexivity]|].
      intros Hb. rewrite tokens_split. specialize (Htok Hb). unfold token in *. rewrite Hpc in Htok. cbn [t_pc at_pc length] in *. lia.
    + constructor; cbn [s_closed s_threads s_q tl]; [reflexivity|apply (forall_split_calm A th B); [exact J2|apply Hat; reflexivity]|].
      intros Hb. rewrite tokens_split. specialize (Htok Hb). unfold token in *. rewrite Hpc in Htok. cbn [t_pc at_pc length] in *. lia.
  - (* PUse *)
    destruct (t_fail th); rewrite ?Hset;
      (constructor; cbn [s_closed s_threads s_q]; [reflexivity|apply (forall_split_calm A th B); [exact J2|apply Hat; reflexivity]|]);
      intros Hb; rewrite tokens_split; specialize (Htok Hb); unfold token in *; rewrite Hpc in Htok; cbn [t_pc at_pc]; exact Htok.
  - (* PPutCheck *)
    constructor; cbn [s_closed s_threads s_q]; [reflexivity|apply (forall_split_calm A th B); [exact J2|apply Hat; reflexivity]|].
    intros Hb. rewrite tokens_split. specialize (Htok Hb). unfold token in *. rewrite Hpc in Htok. cbn [t_pc at_pc]. exact Htok.
  - (* PPutRead *)
    constructor; cbn [s_closed s_threads s_q]; [reflexivity|apply (forall_split_calm A th B); [exact J2|apply Hat; reflexivity]|].
    intros Hb. rewrite tokens_split. specialize (Htok Hb). unfold token in *. rewrite Hpc in Htok. cbn [t_pc at_pc]. exact Htok.
  - (* PPut *)
    destruct (Nat.ltb_spec (length (s_q st)) maxsize) as [Hroom|Hfull]; rewrite ?Hset.
    + constructor; cbn [s_closed s_threads s_q]; [reflexivity|apply (forall_split_calm A th B); [exact J2|apply calm_complete; exact Hth]|].
      intros Hb. rewrite tokens_split, token_complete. specialize (Htok Hb). unfold token in Htok. rewrite Hpc in Htok. cbn [length]. lia.
    + destruct block eqn:Hblk.
      * (* a full queue cannot happen on a blocking pool whose slots are all accounted for *)
        exfalso. specialize (Htok eq_refl). unfold token in Htok. rewrite Hpc in Htok. lia.
      * constructor; cbn [s_closed s_threads s_q]; [reflexivity|apply (forall_split_calm A th B); [exact J2|apply Hat; reflexivity]|discriminate].
  - (* PWarn *)
    constructor; cbn [s_closed s_threads s_q]; [reflexivity|apply (forall_split_calm A th B); [exact J2|apply calm_complete; exact Hth]|].
    intros Hb. rewrite tokens_split, token_complete. specialize (Htok Hb). unfold token in Htok. rewrite Hpc in Htok. exact Htok.
  - destruct Hth as [_ Hc]. rewrite Hpc in Hc. discriminate.
  - destruct Hth as [_ Hc]. rewrite Hpc in Hc. discriminate.
  - destruct Hth as [_ Hc]. rewrite Hpc in Hc. discriminate.
  - constructor; [exact J1|rewrite Hs; exact J2|exact J3].
Qed.

Lemma inv2_init maxsize block progs : Forall (fun ops => ~ In Close ops) progs -> inv2 maxsize block (init maxsize progs).
Proof.
  intros H. constructor; unfold init; cbn [s_closed s_threads s_q].
  - reflexivity.
  - apply Forall_map. eapply Forall_impl; [|exact H]. intros ops Ho. split; [exact Ho|reflexivity].
  - intros _. rewrite tokens_start, repeat_length. lia.
Qed.

Lemma run_inv2 ws maxsize block fuel : forall st sched, inv2 maxsize block st -> inv2 maxsize block (run ws fuel maxsize block st sched).
Proof.
  induction fuel as [|f IH]; intros st sched Hi; cbn [run]; [exact Hi|].
  destruct (pick block st sched) as [[t rest]|] eqn:Hp.
  - apply IH. apply step_inv2; [exact Hi|].
    clear - Hp. induction sched as [|x r IHs]; cbn [pick] in Hp; [discriminate|].
    destruct (runnable block st x) eqn:Hr; [inversion Hp; subst; exact Hr|apply IHs; exact Hp].
  - destruct (first_runnable block st (length (s_threads st)) 0) as [t|] eqn:Hf; [|exact Hi].
    apply IH. apply step_inv2; [exact Hi|].
    clear - Hf. revert Hf. generalize 0 as k. induction (length (s_threads st)) as [|n IHn]; intros k Hf; cbn [first_runnable] in Hf; [discriminate|].
    destruct (runnable block st k) eqn:Hr; [inversion Hf; subst; exact Hr|apply (IHn (S k)); exact Hf].
Qed.

Lemma tokens_pos ths : 1 <= tokens ths -> exists th, In th ths /\ token th = 1.
Proof.
  induction ths as [|th r IH]; intros H; [cbn in H; lia|].
  unfold tokens in H. cbn [map] in H. change (list_sum (token th :: map token r)) with (token th + tokens r) in H.
  assert (Ht : token th = 0 \/ token th = 1) by (unfold token; destruct (t_pc th); auto).
  destruct Ht as [Ht|Ht]; [|exists th; split; [left; reflexivity|exact Ht]].
  destruct IH as (x & Hx & Hxt); [lia|]. exists x. split; [right; exact Hx|exact Hxt].
Qed.

Lemma in_nth_index {A} (x : A) l d : In x l -> exists i, i < length l /\ nth i l d = x.
Proof. intros H. apply In_nth with (d := d) in H. destruct H as (i & Hi & Hn). exists i. split; assumption. Qed.

(* as long as some thread has work left, some thread can move: nobody waits for ever, no slot is lost *)
Theorem progress_without_close ws maxsize block progs fuel sched :
  Forall (fun ops => ~ In Close ops) progs -> 1 <= maxsize ->
  let st := run ws fuel maxsize block (init maxsize progs) sched in
  (exists th, In th (s_threads st) /\ t_pc th <> PIdle) ->
  exists t, t < length (s_threads st) /\ runnable block st t = true.
Proof.
  intros Hnc Hm st.
  pose proof (run_inv2 ws maxsize block fuel (init maxsize progs) sched (inv2_init maxsize block progs Hnc)) as Hi. fold st in Hi.
  clearbody st. intros (th & Hin & Hnid).
  destruct Hi as [J1 J2 J3].
  destruct (in_nth_index th (s_threads st) idle_thread Hin) as (i & Hi & Hn).
  destruct (runnable block st i) eqn:Hr; [exists i; split; assumption|].
  (* thread i is parked in get on an empty queue of a blocking pool *)
  unfold runnable, get_thread in Hr. rewrite Hn in Hr.
  destruct (t_pc th) eqn:Hpc; try discriminate; [|contradiction].
  apply negb_false_iff in Hr. apply andb_true_iff in Hr as [Hb Hq]. specialize (J3 Hb).
  destruct (s_q st) as [|e q'] eqn:Hqe; [|discriminate]. cbn [length] in J3.
  destruct (tokens_pos (s_threads st)) as (x & Hx & Hxt); [lia|].
  destruct (in_nth_index x (s_threads st) idle_thread Hx) as (k & Hk & Hkn).
  exists k. split; [exact Hk|]. unfold runnable, get_thread. rewrite Hkn.
  unfold token in Hxt. destruct (t_pc x); try discriminate; reflexivity.
Qed.
