(* Proofs for C10 (model/ReqHead.v): what is written reads back as exactly the requested request. *)
From Coq Require Import String List NArith Bool Lia ZifyBool ZifyN.
From V Require Import lib.PyStr model.ReqHead.
Import ListNotations.
Local Open Scope N_scope.

(* every CRLF inside the line is followed, inside the line, by SP or HT *)
Fixpoint breaks_ok (l : list N) : bool :=
  match l with
  | [] => true
  | c :: r =>
      if (c =? CR) && (match r with d :: _ => d =? LF | [] => false end) then
        match r with
        | _ :: e :: _ => is_spht e && breaks_ok r
        | _ => false
        end
      else breaks_ok r
  end.

Definition starts_plain (rest : list N) : Prop := match rest with e :: _ => is_spht e = false | [] => True end.

Lemma take_line_nil rest : starts_plain rest -> take_line (CRLF ++ rest) = Some ([], rest).
Proof.
  intros Hr. destruct rest as [|e rest']; [reflexivity|]. cbn [starts_plain] in Hr.
  cbn [app CRLF take_line]. replace (CR =? CR) with true by reflexivity. replace (LF =? LF) with true by reflexivity.
  cbn [andb]. rewrite Hr. reflexivity.
Qed.

Lemma take_line_unfold c r :
  take_line (c :: r) =
  if (c =? CR) && (match r with d :: _ => d =? LF | [] => false end) then
    match r with
    | _ :: e :: r' => if is_spht e then match take_line r with Some (l, rest) => Some (c :: l, rest) | None => None end
                      else Some ([], tl r)
    | _ => Some ([], tl r)
    end
  else match take_line r with Some (l, rest) => Some (c :: l, rest) | None => None end.
Proof. reflexivity. Qed.

Lemma take_line_spec l : forall rest, breaks_ok l = true -> starts_plain rest ->
  take_line (l ++ CRLF ++ rest) = Some (l, rest).
Proof.
  induction l as [|c r IH]; intros rest Hb Hr.
  - apply take_line_nil; exact Hr.
  - cbn [breaks_ok] in Hb.
    change ((c :: r) ++ CRLF ++ rest) with (c :: (r ++ CRLF ++ rest)). rewrite take_line_unfold.
    destruct ((c =? CR) && (match r with d :: _ => d =? LF | [] => false end)) eqn:Ebr.
    + (* a CRLF inside the line, followed by SP / HT *)
      destruct r as [|d [|e r'']]; try discriminate. apply andb_true_iff in Hb as [He Hb].
      cbn [app]. cbn [andb] in Ebr. rewrite Ebr, He.
      change (d :: e :: (r'' ++ CRLF ++ rest)) with ((d :: e :: r'') ++ CRLF ++ rest). rewrite (IH rest Hb Hr). reflexivity.
    + assert (Ebr2 : (c =? CR) && (match r ++ CRLF ++ rest with d :: _ => d =? LF | [] => false end) = false).
      { destruct r as [|d r']; [|exact Ebr]. cbn [app CRLF]. replace (CR =? LF) with false by reflexivity. apply andb_false_r. }
      rewrite Ebr2, (IH rest Hb Hr). reflexivity.
Qed.

Lemma breaks_ok_prefix a b : forallb (fun c => negb (c =? CR)) a = true -> breaks_ok (a ++ b) = breaks_ok b.
Proof.
  induction a as [|c a IH]; intros H; [reflexivity|]. cbn [forallb] in H. apply andb_true_iff in H as [Hc Ha].
  cbn [app breaks_ok]. apply negb_true_iff in Hc. rewrite Hc. cbn [andb]. apply IH; exact Ha.
Qed.

Lemma legal_value_breaks v : illegal_value v = false -> breaks_ok v = true.
Proof.
  induction v as [|c r IH]; intros H; [reflexivity|]. cbn [illegal_value] in H. apply orb_false_iff in H as [Hc Hr].
  cbn [breaks_ok]. destruct (c =? CR) eqn:Ec; cbn [andb].
  - assert (Hcl : (c =? LF) = false) by (unfold CR, LF in *; lia). rewrite Hcl in Hc.
    destruct r as [|d r']; [discriminate|].
    destruct (d =? LF) eqn:Ed; [|apply IH; exact Hr].
    (* CR LF: the LF must be followed by SP / HT *)
    cbn [illegal_value] in Hr. rewrite Ed in Hr. apply orb_false_iff in Hr as [Hd Hr'].
    destruct r' as [|e r'']; [discriminate|]. apply negb_false_iff in Hd. rewrite Hd. cbn [andb].
    apply IH. cbn [illegal_value]. rewrite Ed. apply orb_false_iff. split; [apply negb_false_iff; exact Hd|exact Hr'].
  - apply IH; exact Hr.
Qed.

Lemma split_at_spec d a b : forallb (fun c => negb (c =? d)) a = true -> split_at d (a ++ d :: b) = Some (a, b).
Proof.
  induction a as [|c a IH]; intros H; cbn [app split_at].
  - rewrite N.eqb_refl. reflexivity.
  - cbn [forallb] in H. apply andb_true_iff in H as [Hc Ha]. apply negb_true_iff in Hc. rewrite Hc, (IH Ha). reflexivity.
Qed.

(* a header field as it may be written *)
Definition field_ok (nv : list N * list N) : Prop := legal_name (fst nv) = true /\ illegal_value (snd nv) = false.

Lemma legal_name_facts n : legal_name n = true ->
  forallb (fun c => negb (c =? CR)) n = true /\ forallb (fun c => negb (c =? COLONc)) n = true /\
  exists c r, n = c :: r /\ is_spht c = false.
Proof.
  destruct n as [|c r]; [discriminate|]. cbn [legal_name]. intros H.
  apply andb_true_iff in H as [H Hr]. apply andb_true_iff in H as [Hc Hw].
  assert (Hr' : forall x, In x r -> (x =? COLONc) = false /\ (x =? CR) = false).
  { rewrite forallb_forall in Hr. intros x Hx. specialize (Hr x Hx). unfold COLONc, CR, LF in *. lia. }
  unfold is_ws, is_spht, COLONc, CR, SPc, HT in *.
  split; [|split].
  - cbn [forallb]. apply andb_true_iff. split; [lia|]. apply forallb_forall. intros x Hx. destruct (Hr' x Hx). unfold CR in *. lia.
  - cbn [forallb]. apply andb_true_iff. split; [lia|]. apply forallb_forall. intros x Hx. destruct (Hr' x Hx). unfold COLONc in *. lia.
  - exists c, r. split; [reflexivity|lia].
Qed.

Lemma line_breaks n v : field_ok (n, v) -> breaks_ok (line n v) = true.
Proof.
  intros [Hn Hv]. cbn [fst snd] in *. destruct (legal_name_facts n Hn) as (Hcr & _ & _).
  unfold line. rewrite breaks_ok_prefix by exact Hcr.
  change ([COLONc; SPc] ++ v) with ([COLONc; SPc] ++ v). rewrite breaks_ok_prefix by reflexivity. apply legal_value_breaks; exact Hv.
Qed.

Lemma lines_start_plain fields rest : Forall field_ok fields ->
  starts_plain (concat (map (fun nv => line (fst nv) (snd nv) ++ CRLF) fields) ++ CRLF ++ rest).
Proof.
  intros H. destruct fields as [|[n v] fs]; cbn [map concat app]; [reflexivity|].
  apply Forall_cons_iff in H as [[Hn _] _]. cbn [fst] in Hn. destruct (legal_name_facts n Hn) as (_ & _ & c & r & -> & Hc).
  unfold line. cbn [app starts_plain]. exact Hc.
Qed.

Lemma read_headers_unfold f w :
  read_headers (S f) w =
  match take_line w with
  | None => None
  | Some ([], rest) => Some ([], rest)
  | Some (l, rest) =>
      match split_at COLONc l with
      | Some (name, SPv) =>
          match SPv with
          | s :: value => if s =? SPc then match read_headers f rest with Some (hs, body) => Some ((name, value) :: hs, body) | None => None end else None
          | [] => None
          end
      | None => None
      end
  end.
Proof. reflexivity. Qed.

(* the header block reads back field by field *)
Lemma read_headers_spec fields : forall fuel body, Forall field_ok fields -> starts_plain body ->
  (length fields < fuel)%nat ->
  read_headers fuel (concat (map (fun nv => line (fst nv) (snd nv) ++ CRLF) fields) ++ CRLF ++ body) = Some (fields, body).
Proof.
  induction fields as [|[n v] fs IH]; intros fuel body Hall Hbody Hf.
  - destruct fuel as [|f]; [cbn in Hf; lia|]. cbn [map concat app read_headers].
    change (CRLF ++ body) with ([] ++ CRLF ++ body). rewrite (take_line_spec [] body eq_refl Hbody). reflexivity.
  - destruct fuel as [|f]; [cbn in Hf; lia|]. apply Forall_cons_iff in Hall as [Hnv Hall].
    pose proof (line_breaks n v Hnv) as Hlb. pose proof (lines_start_plain fs body Hall) as Hsp0.
    destruct Hnv as [Hn Hv]. cbn [fst snd] in Hn, Hv. destruct (legal_name_facts n Hn) as (_ & Hcol & c & r & Hn' & _).
    replace (concat (map (fun nv => line (fst nv) (snd nv) ++ CRLF) ((n, v) :: fs)) ++ CRLF ++ body)
      with (line n v ++ CRLF ++ (concat (map (fun nv => line (fst nv) (snd nv) ++ CRLF) fs) ++ CRLF ++ body))
      by (cbn [map concat fst snd]; rewrite <- !app_assoc; reflexivity).
    rewrite read_headers_unfold, (take_line_spec (line n v) _ Hlb Hsp0).
    assert (Hsp : split_at COLONc (line n v) = Some (n, SPc :: v)) by (unfold line; apply split_at_spec; exact Hcol).
    assert (Hl : exists x l, line n v = x :: l) by (unfold line; rewrite Hn'; eexists; eexists; reflexivity).
    destruct Hl as (x & l & Hl). rewrite Hl. rewrite <- Hl, Hsp.
    replace (SPc =? SPc) with true by reflexivity.
    rewrite (IH f body Hall Hbody) by (cbn [length] in Hf; lia). reflexivity.
Qed.

Lemma lines_length (fields : list (list N * list N)) :
  (length fields <= length (concat (map (fun nv => line (fst nv) (snd nv) ++ CRLF) fields)))%nat.
Proof.
  induction fields as [|nv fs IH]; [cbn; lia|]. cbn [map concat]. rewrite !app_length. change (length CRLF) with 2%nat. cbn [length]. lia.
Qed.

Theorem head_reads_back method target fields body :
  forallb (fun c => negb (c =? CR)) (method ++ [SPc] ++ target ++ [SPc] ++ V11) = true ->
  forallb (fun c => negb (c =? SPc)) method = true -> forallb (fun c => negb (c =? SPc)) target = true ->
  Forall field_ok fields -> starts_plain body ->
  read_request ((method ++ [SPc] ++ target ++ [SPc] ++ V11) ++ CRLF ++
                concat (map (fun nv => line (fst nv) (snd nv) ++ CRLF) fields) ++ CRLF ++ body)
  = Some (method, target, fields, body).
Proof.
  intros Hcr Hm Ht Hall Hbody. unfold read_request.
  assert (Hb : breaks_ok (method ++ [SPc] ++ target ++ [SPc] ++ V11) = true).
  { rewrite <- (app_nil_r (method ++ [SPc] ++ target ++ [SPc] ++ V11)). rewrite breaks_ok_prefix by exact Hcr. reflexivity. }
  rewrite (take_line_spec _ _ Hb (lines_start_plain fields body Hall)).
  replace (method ++ [SPc] ++ target ++ [SPc] ++ V11) with (method ++ SPc :: (target ++ SPc :: V11)) by reflexivity.
  rewrite (split_at_spec SPc method _ Hm), (split_at_spec SPc target V11 Ht), str_eqb_refl.
  rewrite read_headers_spec; [reflexivity|exact Hall|exact Hbody|].
  rewrite !app_length. pose proof (lines_length fields). lia.
Qed.

(* ---------- from request_head to the reader ---------- *)
Definition kept (hs : list (str * str)) : list (list N * list N) :=
  filter (fun nv => negb (str_eqb (snd nv) SKIP)) hs.

Lemma header_lines_spec hs : forall ls, header_lines hs = inl ls -> ls = kept hs /\ Forall field_ok ls.
Proof.
  induction hs as [|[n v] r IH]; intros ls H; cbn [header_lines kept filter snd] in *.
  - inversion H; subst. split; [reflexivity|constructor].
  - destruct (str_eqb v SKIP) eqn:Es; cbn [negb].
    + destruct (skippable n); [|discriminate]. apply IH; exact H.
    + destruct (negb (ascii n)); [discriminate|]. destruct (negb (legal_name n)) eqn:El; [discriminate|].
      destruct (negb (latin1 v)); [discriminate|]. destruct (illegal_value v) eqn:Ev; [discriminate|].
      destruct (header_lines r) as [ls'|e]; [|discriminate]. inversion H; subst ls; clear H.
      destruct (IH ls' eq_refl) as [-> Hall]. split; [reflexivity|].
      constructor; [|exact Hall]. split; cbn [fst snd]; [apply negb_false_iff; exact El|exact Ev].
Qed.

Lemma token_no_sp_cr m : method_ok m = true ->
  forallb (fun c => negb (c =? SPc)) m = true /\ forallb (fun c => negb (c =? CR)) m = true.
Proof.
  unfold method_ok. intros H. rewrite forallb_forall in H. split; apply forallb_forall; intros c Hc; specialize (H c Hc);
    unfold token_char in H; cbn [existsb] in H; unfold SPc, CR; lia.
Qed.

Lemma path_no_sp_cr u : path_ok u = true ->
  forallb (fun c => negb (c =? SPc)) u = true /\ forallb (fun c => negb (c =? CR)) u = true.
Proof.
  unfold path_ok. intros H. rewrite forallb_forall in H. split; apply forallb_forall; intros c Hc; specialize (H c Hc); unfold SPc, CR; lia.
Qed.

Definition automatic (nbm : list str) (host ua : list N) (method : str) (hs : list (str * str)) : list (list N * list N) :=
  (if has_key "host" hs then [] else [(HOST, host)]) ++
  (if has_key "accept-encoding" hs then [] else [(AE, IDENTITY)]) ++
  (if mem_str (ascii_upper method) nbm then [] else [(CL, [48])]) ++
  (if has_key "user-agent" hs then [] else [(UA, ua)]).

Theorem written_head_reads_back nbm host ua method url hs w :
  illegal_value host = false -> illegal_value ua = false ->
  request_head nbm host ua method url hs = inl w ->
  read_request w = Some (method, match url with [] => [47] | _ => url end, automatic nbm host ua method hs ++ kept hs, []).
Proof.
  intros Hh Hu H. unfold request_head in H.
  destruct (negb (method_ok method)) eqn:Em; [discriminate|]. apply negb_false_iff in Em.
  set (url' := match url with [] => [47] | _ => url end) in *.
  destruct (negb (path_ok url')) eqn:Ep; [discriminate|]. apply negb_false_iff in Ep.
  destruct (negb (ascii (method ++ [SPc] ++ url'))); [discriminate|].
  destruct (header_lines hs) as [ls|e] eqn:Hl; [|discriminate]. inversion H; subst w; clear H.
  destruct (header_lines_spec hs ls Hl) as [-> Hall].
  destruct (token_no_sp_cr method Em) as [Hm1 Hm2]. destruct (path_no_sp_cr url' Ep) as [Hp1 Hp2].
  fold (automatic nbm host ua method hs).
  assert (Hcr : forallb (fun c => negb (c =? CR)) (method ++ [SPc] ++ url' ++ [SPc] ++ V11) = true)
    by (rewrite !forallb_app; rewrite Hm2, Hp2; reflexivity).
  assert (Hf : Forall field_ok (automatic nbm host ua method hs ++ kept hs)).
  { apply Forall_app. split; [|exact Hall]. unfold automatic.
    repeat (apply Forall_app; split); repeat match goal with |- context[if ?b then _ else _] => destruct b end;
      repeat constructor; cbn [fst snd]; try reflexivity; assumption. }
  pose proof (head_reads_back method url' (automatic nbm host ua method hs ++ kept hs) [] Hcr Hm1 Hp1 Hf I) as HR.
  rewrite app_nil_r in HR. exact HR.
Qed.
