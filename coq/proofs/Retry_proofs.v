(* C04: budgets, termination, non-idempotent requests, sleeps. *)
From Coq Require Import String List NArith ZArith QArith Qminmax Bool Lia Lqa.
From V Require Import lib.PyStr model.Retry model.RetryLoop.
Import ListNotations.
Local Open Scope Z_scope.

Section Proofs.
Variable L : lattice.
Variable to_ssl to_proxy to_protocol ce re : list str.
Variable rac : list Z.

Notation increment := (increment L ce re).
Notation loop := (loop L to_ssl to_proxy to_protocol ce re rac).

(* ---------- what a successful increment guarantees ---------- *)
Lemma finish_ok r t c rd rdr st o loc ie r' :
  finish r t c rd rdr st o loc ie = IOk r' ->
  r' = renew r t c rd rdr st o (r_history r ++ [loc]) /\ is_exhausted r' = false.
Proof.
  unfold finish. destruct (is_exhausted _) eqn:E; [discriminate|]. intros [= <-]. auto.
Qed.

Lemma renew_fields r t c rd rdr st o h :
  let r' := renew r t c rd rdr st o h in
  r_total r' = t /\ r_connect r' = c /\ r_read r' = rd /\ r_status r' = st /\ r_other r' = o /\
  r_allowed r' = r_allowed r /\ r_backoff_max r' = r_backoff_max r /\ r_backoff_factor r' = r_backoff_factor r /\
  r_respect_retry_after r' = r_respect_retry_after r /\ r_raise_on_status r' = r_raise_on_status r /\
  r_forcelist r' = r_forcelist r.
Proof. unfold renew, init. simpl. repeat split. Qed.

Lemma not_exhausted_count r c : is_exhausted r = false -> In c (counts r) -> forall z, c = CInt z -> 0 <= z.
Proof.
  unfold is_exhausted. intros H Hin z ->.
  destruct (z <? 0) eqn:E; [|lia].
  exfalso. assert (X : existsb (fun c => truthy c && negative c) (counts r) = true).
  { apply existsb_exists. exists (CInt z). split; [assumption|]. simpl. rewrite E. lia. }
  congruence.
Qed.

Inductive kind := IsConnect | IsRead | IsOther | IsRedirect | IsStatus.
Definition kind_of (i : inc_input) : kind :=
  match i with
  | IError e => if is_connection_error L ce e then IsConnect else if is_read_error L re e then IsRead else IsOther
  | IResponse _ true => IsRedirect
  | IResponse _ false => IsStatus
  end.

Lemma increment_ok r method i r' :
  increment r method i = IOk r' ->
  is_exhausted r' = false /\
  r_total r' = dec (r_total r) /\
  r_connect r' = (match kind_of i with IsConnect => decn (r_connect r) | _ => r_connect r end) /\
  r_read r' = (match kind_of i with IsRead => decn (r_read r) | _ => r_read r end) /\
  r_other r' = (match kind_of i with IsOther => decn (r_other r) | _ => r_other r end) /\
  (forall s, i = IResponse s false -> s <> 0 -> r_status r' = decn (r_status r)) /\
  r_allowed r' = r_allowed r /\ r_backoff_max r' = r_backoff_max r /\
  r_respect_retry_after r' = r_respect_retry_after r /\ r_raise_on_status r' = r_raise_on_status r /\
  r_forcelist r' = r_forcelist r /\
  (kind_of i = IsRead -> method_retryable r method = true).
Proof.
  unfold increment, kind_of.
  assert (G : forall t c rd rdr st o loc ie,
             finish r t c rd rdr st o loc ie = IOk r' ->
             is_exhausted r' = false /\ r_total r' = t /\ r_connect r' = c /\ r_read r' = rd /\ r_other r' = o /\ r_status r' = st /\
             r_allowed r' = r_allowed r /\ r_backoff_max r' = r_backoff_max r /\
             r_respect_retry_after r' = r_respect_retry_after r /\ r_raise_on_status r' = r_raise_on_status r /\
             r_forcelist r' = r_forcelist r).
  { intros t c rd rdr st o loc ie H. apply finish_ok in H as [-> He].
    pose proof (renew_fields r t c rd rdr st o (r_history r ++ [loc])) as F. simpl in F. tauto. }
  assert (Ht : forall x, match x with IError _ => dec (r_total r) | IResponse _ _ => dec (r_total r) end = dec (r_total r))
    by (intros []; reflexivity).
  destruct i as [e|status has_loc].
  - destruct (is_connection_error L ce e) eqn:Ec.
    + destruct (r_total r) eqn:Et; [discriminate | |];
        (destruct (r_connect r) eqn:Ecc; try discriminate; intros H; apply G in H;
         destruct H as (He & Htt & Hc & Hr & Ho & Hst & Ha & Hb & Hre & Hrs & Hf);
         repeat split; simpl; try assumption; try congruence; try (intros; discriminate)).
    + destruct (is_read_error L re e) eqn:Er.
      * destruct (r_total r) eqn:Et; [discriminate | |];
          (destruct (is_false (r_read r) || negb (method_retryable r method)) eqn:Em; [discriminate|];
           intros H; apply G in H; apply orb_false_iff in Em as [_ Em]; apply negb_false_iff in Em;
           destruct H as (He & Htt & Hc & Hr & Ho & Hst & Ha & Hb & Hre & Hrs & Hf);
           repeat split; simpl; try assumption; try congruence; try (intros; discriminate)).
      * destruct (r_total r) eqn:Et; [discriminate | |];
          (intros H; apply G in H;
           destruct H as (He & Htt & Hc & Hr & Ho & Hst & Ha & Hb & Hre & Hrs & Hf);
           repeat split; simpl; try assumption; try congruence; try (intros; discriminate)).
  - destruct has_loc.
    + destruct (r_total r) eqn:Et; intros H; apply G in H;
        destruct H as (He & Htt & Hc & Hr & Ho & Hst & Ha & Hb & Hre & Hrs & Hf);
        repeat split; simpl; try assumption; try congruence; try (intros; discriminate).
    + destruct (r_total r) eqn:Et; intros H; apply G in H;
        destruct H as (He & Htt & Hc & Hr & Ho & Hst & Ha & Hb & Hre & Hrs & Hf);
        (repeat split; simpl; try assumption; try congruence; try (intros; discriminate));
        (intros s Hs Hne; injection Hs as <-; rewrite Hst; destruct (status =? 0) eqn:E; [lia | reflexivity]).
Qed.

(* ---------- attempts never exceed 1 + total ---------- *)
Lemma loop_wires_total script mode method r hc wires sleeps cats t :
  r_total r = CInt t -> 0 <= t ->
  (length (t_wire (loop script mode method r hc wires sleeps cats)) <= length wires + Z.to_nat (t + 1))%nat.
Proof.
  revert r hc wires sleeps cats t. induction script as [|a rest IH]; intros r hc wires sleeps cats t Ht Hp; cbn [RetryLoop.loop].
  - cbn [t_wire]. lia.
  - assert (Hlen : forall w, length (wires ++ [w]) = S (length wires)) by (intros; rewrite app_length; simpl; lia).
    assert (Hnext : forall i r', increment r method i = IOk r' -> r_total r' = CInt (t - 1) /\ 0 <= t - 1).
    { intros i r' H. apply increment_ok in H as (He & Htot & _). rewrite Ht in Htot. simpl in Htot.
      split; [assumption|].
      eapply (not_exhausted_count r' (r_total r') He); [left; reflexivity | eassumption]. }
    destruct (attempt_exception (negb hc) a) as [[cls closed]|].
    + match goal with |- context [Retry.increment L ce re r method (IError ?e)] =>
        destruct (increment r method (IError e)) as [r'| |ie] eqn:Ei end; cbn [t_wire]; rewrite ?Hlen; try lia.
      destruct (Hnext _ _ Ei) as (Ht' & Hp').
      eapply Nat.le_trans; [apply (IH r' false _ _ _ (t - 1) Ht' Hp')|]. rewrite Hlen. lia.
    + destruct (a_recv a) as [status ra ka| | | |]; cbn [t_wire]; rewrite ?Hlen; try lia.
      match goal with |- context [if ?c then _ else _] => destruct c end; cbn [t_wire]; rewrite ?Hlen; try lia.
      destruct (increment r method (IResponse status false)) as [r'| |ie] eqn:Ei;
        try (destruct (r_raise_on_status r); cbn [t_wire]; rewrite ?Hlen; lia).
      destruct (Hnext _ _ Ei) as (Ht' & Hp').
      eapply Nat.le_trans; [apply (IH r' ka _ _ _ (t - 1) Ht' Hp')|]. rewrite Hlen. lia.
Qed.

Theorem attempts_le_total script mode method r t :
  r_total r = CInt t -> 0 <= t ->
  (length (t_wire (run_loop L to_ssl to_proxy to_protocol ce re rac script mode method r)) <= Z.to_nat (t + 1))%nat.
Proof. intros Ht Hp. unfold run_loop. apply (loop_wires_total script mode method r false [] [] [] t Ht Hp). Qed.

(* ---------- per-category budgets ---------- *)
Definition count_cat (k : category) (l : list category) : nat :=
  length (filter (fun x => match x, k with KConnect, KConnect | KRead, KRead | KOther, KOther | KStatus, KStatus => true | _, _ => false end) l).

Definition budget_of (k : category) (r : retry) : count :=
  match k with KConnect => r_connect r | KRead => r_read r | KOther => r_other r | KStatus => r_status r end.

Lemma count_cat_app k a b : count_cat k (a ++ b) = (count_cat k a + count_cat k b)%nat.
Proof. unfold count_cat. rewrite filter_app, app_length. reflexivity. Qed.

Lemma category_kind e : category_of L ce re e = match kind_of (IError e) with IsConnect => KConnect | IsRead => KRead | _ => KOther end.
Proof. unfold category_of, kind_of. destruct (is_connection_error L ce e); [reflexivity|]. destruct (is_read_error L re e); reflexivity. Qed.

Lemma increment_err_status r method e r' : increment r method (IError e) = IOk r' -> r_status r' = r_status r.
Proof.
  intros Ei. unfold Retry.increment in Ei. destruct (r_total r); try discriminate;
    repeat match type of Ei with
           | (if ?c then _ else _) = _ => destruct c
           | (match ?c with _ => _ end) = _ => destruct c
           end; try discriminate; apply finish_ok in Ei as [-> _]; reflexivity.
Qed.

Ltac norm_single H :=
  repeat match type of H with
         | context [count_cat ?a [?b]] => let v := eval vm_compute in (count_cat a [b]) in change (count_cat a [b]) with v in H
         end.

Lemma loop_category_budget k script mode method r hc wires sleeps cats b :
  budget_of k r = CInt b -> 0 <= b ->
  (forall a, In a script -> match a_recv a with RResp s _ _ => s <> 0 | _ => True end) ->
  (count_cat k (t_retried (loop script mode method r hc wires sleeps cats)) <= count_cat k cats + Z.to_nat b)%nat.
Proof.
  revert r hc wires sleeps cats b. induction script as [|a rest IH]; intros r hc wires sleeps cats b Hb Hp Hs; cbn [RetryLoop.loop].
  - cbn [t_retried]. lia.
  - assert (Hrest : forall x, In x rest -> match a_recv x with RResp s _ _ => s <> 0 | _ => True end)
      by (intros; apply Hs; right; assumption).
    destruct (attempt_exception (negb hc) a) as [[cls closed]|].
    + match goal with |- context [Retry.increment L ce re r method (IError ?e0)] =>
        remember e0 as e eqn:He0; clear He0 end.
      destruct (increment r method (IError e)) as [r'| |ie] eqn:Ei; cbn [t_retried]; try lia.
      pose proof (increment_ok _ _ _ _ Ei) as (He & _ & Hc & Hr & Ho & _ & _).
      pose proof (increment_err_status _ _ _ _ Ei) as Hst.
      assert (Hstep : forall b', budget_of k r' = CInt b' -> 0 <= b' ->
                (count_cat k (t_retried (loop rest mode method r' false (wires ++ [wire_of (negb hc) a])
                     (sleeps ++ sleep_after_error r') (cats ++ [category_of L ce re e])))
                 <= count_cat k (cats ++ [category_of L ce re e]) + Z.to_nat b')%nat)
        by (intros b' Hb' Hp'; apply (IH r' false _ _ _ b' Hb' Hp' Hrest)).
      rewrite count_cat_app in Hstep. rewrite category_kind in *.
      assert (Hdec : forall K HH, budget_of K r = CInt b -> budget_of K r' = decn (budget_of K r) ->
                 HH = count_cat K [match kind_of (IError e) with IsConnect => KConnect | IsRead => KRead | _ => KOther end] ->
                 HH = 1%nat ->
                 (count_cat K (t_retried (loop rest mode method r' false (wires ++ [wire_of (negb hc) a])
                     (sleeps ++ sleep_after_error r') (cats ++ [match kind_of (IError e) with IsConnect => KConnect | IsRead => KRead | _ => KOther end])))
                  <= count_cat K cats + Z.to_nat b)%nat -> True) by (intros; exact I).
      clear Hdec.
      destruct k; simpl in Hb; destruct (kind_of (IError e)) eqn:Ek; rewrite ?Ek in Hstep; simpl in Hc, Hr, Ho;
           try (match goal with |- (count_cat ?K _ <= _)%nat =>
                  assert (Hb0 : budget_of K r' = CInt b) by (simpl; congruence);
                  specialize (Hstep b Hb0 Hp); norm_single Hstep; lia end).
      all: try (exfalso; clear - Ek; unfold kind_of in Ek; destruct (is_connection_error L ce e); [discriminate|];
                destruct (is_read_error L re e); discriminate).
      all: match goal with |- (count_cat ?K _ <= _)%nat =>
             assert (Hb' : budget_of K r' = CInt (b - 1)) by (simpl; rewrite ?Hc, ?Hr, ?Ho, ?Hst, Hb; reflexivity);
             assert (0 <= b - 1) by (eapply (not_exhausted_count r' _ He); [|exact Hb']; unfold counts; simpl; tauto);
             specialize (Hstep (b - 1) Hb' H); norm_single Hstep; lia end.
    + destruct (a_recv a) as [status ra ka| | | |] eqn:Ea; cbn [t_retried]; try lia.
      match goal with |- context [if ?c then _ else _] => destruct c end; cbn [t_retried]; try lia.
      destruct (increment r method (IResponse status false)) as [r'| |ie] eqn:Ei;
        try (destruct (r_raise_on_status r); cbn [t_retried]; lia).
      pose proof (increment_ok _ _ _ _ Ei) as (He & _ & Hc & Hr & Ho & Hst & _).
      assert (Hs0 : status <> 0) by (specialize (Hs a (or_introl eq_refl)); rewrite Ea in Hs; exact Hs).
      specialize (Hst status eq_refl Hs0). simpl in Hc, Hr, Ho.
      assert (Hstep : forall b', budget_of k r' = CInt b' -> 0 <= b' ->
                (count_cat k (t_retried (loop rest mode method r' ka (wires ++ [wire_of (negb hc) a])
                     (sleeps ++ sleep_after_status r' ra) (cats ++ [KStatus])))
                 <= count_cat k (cats ++ [KStatus]) + Z.to_nat b')%nat)
        by (intros b' Hb' Hp'; apply (IH r' ka _ _ _ b' Hb' Hp' Hrest)).
      rewrite count_cat_app in Hstep.
      destruct k; simpl in Hb;
        try (match goal with |- (count_cat ?K _ <= _)%nat =>
               assert (Hb0 : budget_of K r' = CInt b) by (simpl; congruence);
               specialize (Hstep b Hb0 Hp); norm_single Hstep; lia end).
      assert (Hb' : budget_of KStatus r' = CInt (b - 1)) by (simpl; rewrite Hst, Hb; reflexivity).
      assert (0 <= b - 1) by (eapply (not_exhausted_count r' _ He); [|exact Hb']; unfold counts; simpl; tauto).
      specialize (Hstep (b - 1) Hb' H). change (count_cat KStatus [KStatus]) with 1%nat in Hstep. lia.
Qed.

Theorem category_budgets k script mode method r b :
  budget_of k r = CInt b -> 0 <= b ->
  (forall a, In a script -> match a_recv a with RResp s _ _ => s <> 0 | _ => True end) ->
  (count_cat k (t_retried (run_loop L to_ssl to_proxy to_protocol ce re rac script mode method r)) <= Z.to_nat b)%nat.
Proof. intros. unfold run_loop. apply (loop_category_budget k script mode method r false [] [] [] b); assumption. Qed.

(* ---------- a method outside allowed_methods is never retried after a read error or a status ---------- *)
Lemma loop_nonidempotent script mode method r hc wires sleeps cats :
  method_retryable r method = false ->
  (forall k, In k cats -> k = KConnect \/ k = KOther) ->
  forall k, In k (t_retried (loop script mode method r hc wires sleeps cats)) -> k = KConnect \/ k = KOther.
Proof.
  revert r hc wires sleeps cats. induction script as [|a rest IH]; intros r hc wires sleeps cats Hm Hc; cbn [RetryLoop.loop].
  - cbn [t_retried]. assumption.
  - destruct (attempt_exception (negb hc) a) as [[cls closed]|].
    + match goal with |- context [Retry.increment L ce re r method (IError ?e0)] =>
        remember e0 as e eqn:He0; clear He0 end.
      destruct (increment r method (IError e)) as [r'| |ie] eqn:Ei; cbn [t_retried]; try assumption.
      pose proof (increment_ok _ _ _ _ Ei) as (_ & _ & _ & _ & _ & _ & Ha & _ & _ & _ & _ & Hread).
      apply IH.
      * unfold method_retryable in *. rewrite Ha. assumption.
      * intros k Hk. apply in_app_iff in Hk as [Hk|[<-|[]]]; [auto|].
        rewrite category_kind. destruct (kind_of (IError e)) eqn:Ek; auto.
        specialize (Hread eq_refl). congruence.
    + destruct (a_recv a) as [status ra ka| | | |]; cbn [t_retried]; try assumption.
      unfold is_retry. rewrite Hm. cbn [negb t_retried]. assumption.
Qed.

Theorem nonidempotent_not_retried script mode method r :
  method_retryable r method = false ->
  forall k, In k (t_retried (run_loop L to_ssl to_proxy to_protocol ce re rac script mode method r)) ->
  k = KConnect \/ k = KOther.
Proof. intros Hm. apply loop_nonidempotent; [assumption | intros k []]. Qed.

(* ---------- retries=False: the first error is re-raised at once ---------- *)
Theorem false_reraises a rest mode method r cls closed :
  r_total r = CFalse -> attempt_exception true a = Some (Raised cls closed) ->
  exists e, run_loop L to_ssl to_proxy to_protocol ce re rac (a :: rest) mode method r =
            mkTr [wire_of true a] [] (FRaise e) [].
Proof.
  intros Ht Ha. unfold run_loop. cbn [RetryLoop.loop negb]. rewrite Ha.
  unfold Retry.increment. rewrite Ht. eexists. reflexivity.
Qed.

(* ---------- sleeps ---------- *)
Lemma backoff_range r j : (0 <= r_backoff_max r)%Q -> (0 <= backoff_time r j /\ backoff_time r j <= r_backoff_max r)%Q.
Proof.
  intros Hm. unfold backoff_time. destruct (trailing_errors _) as [|[|k]]; try (split; [apply Qle_refl | assumption]).
  split; [apply Q.le_max_l|]. apply Q.max_lub; [assumption | apply Q.le_min_l].
Qed.

(* Retry-After values carried by the responses of a script *)
Definition retry_after_values (script : list attempt) : list Q :=
  flat_map (fun a => match a_recv a with RResp _ (Some n) _ => [inject_Z n] | _ => [] end) script.

Definition sleep_ok (bm : Q) (RA : list Q) (q : Q) : Prop := (0 <= q /\ q <= bm)%Q \/ In q RA.

Lemma loop_sleeps RA script mode method r hc wires sleeps cats bm :
  (r_backoff_max r == bm)%Q -> (0 <= bm)%Q ->
  (forall q, In q (retry_after_values script) -> In q RA) ->
  (forall q, In q sleeps -> sleep_ok bm RA q) ->
  forall q, In q (t_sleeps (loop script mode method r hc wires sleeps cats)) -> sleep_ok bm RA q.
Proof.
  revert r hc wires sleeps cats. induction script as [|a rest IH]; intros r hc wires sleeps cats Hbm Hp Hra Hs; cbn [RetryLoop.loop].
  - cbn [t_sleeps]. assumption.
  - assert (Hra' : forall q, In q (retry_after_values rest) -> In q RA).
    { intros q H. apply Hra. unfold retry_after_values. simpl. apply in_app_iff. right. exact H. }
    assert (Herr : forall r', (r_backoff_max r' == bm)%Q -> forall q, In q (sleep_after_error r') -> sleep_ok bm RA q).
    { intros r' Hb' q. unfold sleep_after_error. destruct (Qle_bool _ 0); [intros []|]. intros [<-|[]].
      destruct (backoff_range r' 0) as [A B]; [rewrite Hb'; assumption|]. left. split; [assumption | rewrite <- Hb'; assumption]. }
    destruct (attempt_exception (negb hc) a) as [[cls closed]|].
    + match goal with |- context [Retry.increment L ce re r method (IError ?e0)] =>
        remember e0 as e eqn:He0; clear He0 end.
      destruct (increment r method (IError e)) as [r'| |ie] eqn:Ei; cbn [t_sleeps]; try assumption.
      pose proof (increment_ok _ _ _ _ Ei) as (_ & _ & _ & _ & _ & _ & _ & Hb' & _).
      apply IH; [rewrite Hb'; assumption | assumption | assumption|].
      intros q Hq. apply in_app_iff in Hq as [Hq|Hq]; [auto | apply (Herr r'); [rewrite Hb'; assumption | assumption]].
    + destruct (a_recv a) as [status ra ka| | | |] eqn:Ea; cbn [t_sleeps]; try assumption.
      match goal with |- context [if ?c then _ else _] => destruct c end; cbn [t_sleeps]; try assumption.
      destruct (increment r method (IResponse status false)) as [r'| |ie] eqn:Ei;
        try (destruct (r_raise_on_status r); cbn [t_sleeps]; assumption).
      pose proof (increment_ok _ _ _ _ Ei) as (_ & _ & _ & _ & _ & _ & _ & Hb' & _).
      apply IH; [rewrite Hb'; assumption | assumption | assumption|].
      intros q Hq. apply in_app_iff in Hq as [Hq|Hq]; [auto|].
      unfold sleep_after_status in Hq.
      destruct (if r_respect_retry_after r' then ra else None) as [n|] eqn:En.
      * destruct (0 <? n) eqn:Ep; [|apply (Herr r'); [rewrite Hb'; assumption | assumption]].
        destruct Hq as [<-|[]]. right. apply Hra. unfold retry_after_values. simpl. rewrite Ea.
        destruct (r_respect_retry_after r'); [|discriminate]. subst ra. left. reflexivity.
      * apply (Herr r'); [rewrite Hb'; assumption | assumption].
Qed.

(* every sleep is a back-off within [0, backoff_max] or the Retry-After value of a response of this request *)
Theorem sleeps_in_range script mode method r :
  (0 <= r_backoff_max r)%Q ->
  forall q, In q (t_sleeps (run_loop L to_ssl to_proxy to_protocol ce re rac script mode method r)) ->
    sleep_ok (r_backoff_max r) (retry_after_values script) q.
Proof.
  intros Hp. unfold run_loop. apply (loop_sleeps (retry_after_values script)); try assumption;
    [apply Qeq_refl | auto | intros q []].
Qed.
End Proofs.
