(* Proofs for C09 (model/ProxyRoute.v). *)
From Coq Require Import List Arith Bool Lia.
From V Require Import model.ProxyRoute.
Import ListNotations.

Section Proofs.
Variable c : config.
Variable close_after : list bool.

Definition proxy_layers : nat := if c_proxy_https c then 1 else 0.

Definition is_connect (m : msg) : bool := match m_kind m with KConnect => true | _ => false end.

(* what may be said about a single message, given the configuration *)
Definition good_msg (m : msg) : Prop :=
  (m_tunnelled m = true -> m_proxy_headers m = false) /\
  (c_proxy_https c = true -> c_proxy_ok c = true) /\
  (if tunnel_required c then
     match m_kind m with
     | KConnect => m_layers m = proxy_layers /\ m_tunnelled m = false /\ m_request_headers m = false
     | KOrigin _ => m_layers m = S proxy_layers /\ m_tunnelled m = true /\ c_origin_ok c = true
     | KAbsolute _ => False
     end
   else
     match m_kind m with
     | KAbsolute _ => m_layers m = proxy_layers /\ m_tunnelled m = false
     | _ => False
     end).

(* in a log (newest first): every tunnelled request has a CONNECT on its connection before it *)
Fixpoint preceded (log : list msg) : Prop :=
  match log with
  | [] => True
  | m :: older =>
      (match m_kind m with
       | KOrigin _ => exists k, In k older /\ m_kind k = KConnect /\ m_conn k = m_conn m
       | _ => True
       end) /\ preceded older
  end.

Definition requests_in (log : list msg) : nat := length (filter (fun m => negb (is_connect m)) log).
Definition oks (os : list outcome) : nat := length (filter (fun o => match o with Ok => true | _ => false end) os).

Definition inv (st : state) : Prop :=
  Forall good_msg (s_log st) /\ preceded (s_log st) /\
  match s_open st with
  | Some (id, layers, tun) =>
      tun = tunnel_required c /\ layers = (if tun then S proxy_layers else proxy_layers) /\
      (c_proxy_https c = true -> c_proxy_ok c = true) /\
      (tun = true -> c_origin_ok c = true /\ exists k, In k (s_log st) /\ m_kind k = KConnect /\ m_conn k = id)
  | None => True
  end.

Lemma attempt_inv st i : inv st ->
  match attempt c close_after st i with
  | ADone st1 => inv st1 /\ requests_in (s_log st1) = S (requests_in (s_log st))
  | AFail st1 o => (inv st1 /\ requests_in (s_log st1) = requests_in (s_log st) /\ s_open st1 = None) /\ o <> Ok
  end.
Proof.
  intros (Hlog & Hpre & Hopen). unfold attempt.
  destruct (s_open st) as [[[id layers] tun]|] eqn:Ho.
  - (* a pooled connection *)
    destruct Hopen as (Ht & Hl & Hp & Hc).
    assert (Hg : good_msg (if tun then mkMsg id layers (KOrigin i) false true true else mkMsg id layers (KAbsolute i) true true false)).
    { unfold good_msg. destruct tun; cbn [m_tunnelled m_proxy_headers m_kind m_layers m_request_headers].
      - split; [reflexivity|]. split; [exact Hp|]. rewrite <- Ht. destruct (Hc eq_refl) as [Hok _]. repeat split; assumption.
      - split; [discriminate|]. split; [exact Hp|]. rewrite <- Ht. split; [exact Hl|reflexivity]. }
    split.
    + split; [constructor; assumption|]. split.
      * cbn [preceded s_log]. split; [|exact Hpre]. destruct tun; cbn [m_kind]; [|exact I].
        destruct (Hc eq_refl) as [_ (k & Hin & Hk & Hid)]. exists k. repeat split; assumption.
      * cbn [s_open]. destruct (nth (s_responses st) close_after false); [exact I|].
        split; [exact Ht|]. split; [exact Hl|]. split; [exact Hp|]. intros Htt. destruct (Hc Htt) as [Hok (k & Hin & Hk & Hid)].
        split; [exact Hok|]. exists k. split; [right; exact Hin|split; assumption].
    + cbn [s_log]. unfold requests_in. cbn [filter]. destruct tun; cbn [is_connect m_kind negb length]; reflexivity.
  - (* a new connection *)
    destruct (c_proxy_https c && negb (c_proxy_ok c)) eqn:Hbad.
    { cbn [s_log s_open]. split; [|discriminate]. split; [split; [exact Hlog|split; [exact Hpre|exact I]]|split; reflexivity]. }
    assert (Hp : c_proxy_https c = true -> c_proxy_ok c = true).
    { intros Hh. rewrite Hh in Hbad. cbn in Hbad. destruct (c_proxy_ok c); [reflexivity|discriminate]. }
    fold proxy_layers.
    destruct (tunnel_required c) eqn:Htun.
    + (* CONNECT first *)
      set (cm := mkMsg (s_next st) proxy_layers KConnect true false false).
      assert (Hgc : good_msg cm).
      { unfold good_msg, cm. cbn [m_tunnelled m_proxy_headers m_kind m_layers m_request_headers]. rewrite Htun.
        split; [discriminate|]. split; [exact Hp|]. repeat split. }
      assert (Hfail : inv (mkState None (S (s_next st)) (tl (s_connects st)) (s_responses st) (cm :: s_log st)) /\
                      requests_in (cm :: s_log st) = requests_in (s_log st) /\ @None (nat * nat * bool) = None).
      { split; [|split; reflexivity]. split; [constructor; assumption|]. split; [cbn [preceded m_kind cm]; split; [exact I|exact Hpre]|exact I]. }
      destruct (Nat.eqb (hd 200 (s_connects st)) 200); [|destruct (Nat.eqb (hd 200 (s_connects st)) 0); (split; [exact Hfail|discriminate])].
      destruct (c_origin_ok c) eqn:Hok; [|split; [exact Hfail|discriminate]].
      cbn [s_log s_open s_next s_connects s_responses].
      set (rm := mkMsg (s_next st) (S proxy_layers) (KOrigin i) false true true).
      assert (Hgr : good_msg rm).
      { unfold good_msg, rm. cbn [m_tunnelled m_proxy_headers m_kind m_layers]. rewrite Htun. split; [reflexivity|]. split; [exact Hp|]. repeat split; assumption. }
      split.
      * split; [constructor; [exact Hgr|constructor; assumption]|]. split.
        -- cbn [preceded]. split; [|split; [exact I|exact Hpre]]. cbn [m_kind rm m_conn]. exists cm. split; [left; reflexivity|split; reflexivity].
        -- destruct (nth (s_responses st) close_after false); [exact I|]. split; [symmetry; exact Htun|]. split; [reflexivity|]. split; [exact Hp|].
           intros _. split; [exact Hok|]. exists cm. split; [right; left; reflexivity|split; reflexivity].
      * unfold requests_in. cbn [filter is_connect m_kind rm cm negb length]. reflexivity.
    + (* forwarding *)
      cbn [s_log s_open s_next s_connects s_responses].
      set (rm := mkMsg (s_next st) proxy_layers (KAbsolute i) true true false).
      assert (Hgr : good_msg rm).
      { unfold good_msg, rm. cbn [m_tunnelled m_proxy_headers m_kind m_layers]. rewrite Htun. split; [discriminate|]. split; [exact Hp|]. split; reflexivity. }
      split.
      * split; [constructor; assumption|]. split; [cbn [preceded m_kind rm]; split; [exact I|exact Hpre]|].
        destruct (nth (s_responses st) close_after false); [exact I|]. split; [symmetry; exact Htun|]. split; [reflexivity|]. split; [exact Hp|discriminate].
      * unfold requests_in. cbn [filter is_connect m_kind rm negb length]. reflexivity.
Qed.

Lemma request_inv fuel : forall st i st1 o, inv st -> request c close_after fuel st i = (st1, o) ->
  inv st1 /\ requests_in (s_log st1) = (match o with Ok => 1 | _ => 0 end) + requests_in (s_log st).
Proof.
  induction fuel as [|f IH]; intros st i st1 o Hinv H; cbn [request] in H;
    pose proof (attempt_inv st i Hinv) as Ha; destruct (attempt c close_after st i) as [st2|st2 o2].
  - inversion H; subst. destruct Ha as [Hi Hr]. split; [exact Hi|]. rewrite Hr. reflexivity.
  - inversion H; subst. destruct Ha as ((Hi & Hr & _) & Hno). split; [exact Hi|]. rewrite Hr.
    destruct (c_retries c); [reflexivity|]. destruct o2; try reflexivity. contradiction.
  - inversion H; subst. destruct Ha as [Hi Hr]. split; [exact Hi|]. rewrite Hr. reflexivity.
  - destruct Ha as ((Hi & Hr & _) & _). destruct (IH st2 i st1 o Hi H) as [Hi1 Hr1]. split; [exact Hi1|]. rewrite Hr1, Hr. reflexivity.
Qed.

Lemma requests_inv n : forall st i st1 os, inv st -> requests c close_after st i n = (st1, os) ->
  inv st1 /\ requests_in (s_log st1) = oks os + requests_in (s_log st) /\ length os = n.
Proof.
  induction n as [|n IH]; intros st i st1 os Hinv H; cbn [requests] in H.
  - inversion H; subst. split; [exact Hinv|split; reflexivity].
  - destruct (request c close_after _ st i) as [st2 o] eqn:Hr.
    destruct (requests c close_after st2 (S i) n) as [st3 os'] eqn:Hrs. inversion H; subst st1 os; clear H.
    destruct (request_inv _ st i st2 o Hinv Hr) as [Hi2 Hc2].
    destruct (IH st2 (S i) st3 os' Hi2 Hrs) as (Hi3 & Hc3 & Hl). split; [exact Hi3|]. split; [|cbn [length]; rewrite Hl; reflexivity].
    rewrite Hc3, Hc2. unfold oks. cbn [filter]. destruct o; cbn [length]; lia.
Qed.

Lemma inv_init connects : inv (mkState None 0 connects 0 []).
Proof. split; [constructor|split; exact I]. Qed.

(* in the order the messages were written: every tunnelled request comes after a CONNECT on its connection *)
Fixpoint connect_before (seen : list nat) (ms : list msg) : Prop :=
  match ms with
  | [] => True
  | m :: later =>
      match m_kind m with
      | KConnect => connect_before (m_conn m :: seen) later
      | KOrigin _ => In (m_conn m) seen /\ connect_before seen later
      | KAbsolute _ => connect_before seen later
      end
  end.

Lemma connect_before_mono ms : forall seen seen', (forall x, In x seen -> In x seen') -> connect_before seen ms -> connect_before seen' ms.
Proof.
  induction ms as [|m ms IH]; intros seen seen' Hsub H; cbn [connect_before] in *; [exact I|].
  destruct (m_kind m).
  - eapply IH; [|exact H]. intros x [->|Hx]; [left; reflexivity|right; apply Hsub; exact Hx].
  - destruct H as [Hin H]. split; [apply Hsub; exact Hin|eapply IH; eassumption].
  - eapply IH; eassumption.
Qed.

Lemma preceded_rev log : preceded log -> forall later, connect_before (map m_conn (filter is_connect log)) later ->
  connect_before [] (rev log ++ later).
Proof.
  induction log as [|m older IH]; intros Hp later Hl; cbn [rev app]; [exact Hl|].
  cbn [preceded] in Hp. destruct Hp as [Hm Hp]. rewrite <- app_assoc. apply IH; [exact Hp|]. cbn [app connect_before].
  cbn [filter] in Hl. unfold is_connect in *. destruct (m_kind m) eqn:Hk.
  - cbn [map] in Hl. exact Hl.
  - split; [|exact Hl]. destruct Hm as (k & Hin & Hkk & Hid). rewrite <- Hid. apply in_map.
    apply filter_In. split; [exact Hin|]. rewrite Hkk. reflexivity.
  - exact Hl.
Qed.

Lemma filter_length_rev {A} (f : A -> bool) (l : list A) : length (filter f (rev l)) = length (filter f l).
Proof.
  induction l as [|x l IH]; [reflexivity|]. cbn [rev filter]. rewrite filter_app, app_length, IH. cbn [filter].
  destruct (f x); cbn [length]; lia.
Qed.

Theorem run_properties connects n :
  let '(ms, os) := run c connects close_after n in
  Forall good_msg ms /\ connect_before [] ms /\ requests_in ms = oks os /\ length os = n.
Proof.
  unfold run. destruct (requests c close_after (mkState None 0 connects 0 []) 0 n) as [st os] eqn:Hr.
  destruct (requests_inv n _ 0 st os (inv_init connects) Hr) as ((Hlog & Hpre & _) & Hcnt & Hlen).
  split; [apply Forall_rev; exact Hlog|]. split.
  - rewrite <- (app_nil_r (rev (s_log st))). apply preceded_rev; [exact Hpre|exact I].
  - split; [|exact Hlen]. cbn [s_log requests_in filter length] in Hcnt. rewrite Nat.add_0_r in Hcnt. rewrite <- Hcnt.
    unfold requests_in. apply filter_length_rev.
Qed.
End Proofs.
