(* C05 / C06: redirect budgets, the 303 rewrite, credential stripping. *)
From Coq Require Import String List NArith ZArith QArith Bool Lia ZifyBool ZifyN.
From V Require Import lib.PyStr model.Retry model.Redirect proofs.Retry_proofs.
Import ListNotations.
Local Open Scope Z_scope.

Section P.
Variable L : lattice.
Variable ce re : list str.
Variable rs : list Z.
Variable ch : list str.
Variable fb : N.
Variable mkd : bool -> retries_arg -> option retry -> retry.

Notation increment := (Retry.increment L ce re).
Notation manager_loop := (manager_loop L ce re rs ch fb mkd).
Notation pool_loop := (pool_loop L ce re rs ch mkd).

(* ---------- increment on a redirect ---------- *)
Lemma increment_redirect r m s r' :
  increment r m (IResponse s true) = IOk r' ->
  is_exhausted r' = false /\ r_total r' = dec (r_total r) /\ r_redirect r' = decn (r_redirect r) /\
  r_remove_headers r' = map ascii_lower (r_remove_headers r) /\ r_raise_on_redirect r' = r_raise_on_redirect r.
Proof.
  unfold Retry.increment.
  assert (G : finish r (dec (r_total r)) (r_connect r) (r_read r) (decn (r_redirect r)) (r_status r) (r_other r) true false = IOk r' ->
              is_exhausted r' = false /\ r_total r' = dec (r_total r) /\ r_redirect r' = decn (r_redirect r) /\
              r_remove_headers r' = map ascii_lower (r_remove_headers r) /\ r_raise_on_redirect r' = r_raise_on_redirect r).
  { intros H. apply finish_ok in H as [-> He]. split; [assumption|]. unfold renew, init. simpl.
    assert (F1 : is_false (decn (r_redirect r)) = false) by (destruct (r_redirect r); reflexivity).
    assert (F2 : is_false (dec (r_total r)) = false) by (destruct (r_total r); reflexivity).
    rewrite F1, F2. simpl. auto. }
  destruct (r_total r); exact G.
Qed.

Lemma lower_lower_list l : map ascii_lower (map ascii_lower l) = map ascii_lower l.
Proof.
  rewrite map_map. apply map_ext. intros s. unfold ascii_lower. rewrite map_map. apply map_ext. intros c.
  unfold lower_cp. destruct ((65 <=? c)%N && (c <=? 90)%N) eqn:E; [|rewrite E; reflexivity].
  assert (((65 <=? c + 32)%N && (c + 32 <=? 90)%N) = false) by lia. rewrite H. reflexivity.
Qed.

(* ---------- followed redirects never exceed the redirect / total budget ---------- *)
Definition followed (before : list logent) (res : list logent * outcome) : nat := (length (fst res) - length before - 1)%nat.

Lemma manager_budget script redirect cur rq r pr vp log k :
  (r_redirect r = CInt k \/ r_total r = CInt k) -> 0 <= k ->
  (length (fst (manager_loop script redirect cur rq (RObj r) pr vp log)) <= length log + 1 + Z.to_nat k)%nat.
Proof.
  revert cur rq r log k. induction script as [|h rest IH]; intros cur rq r log k Hb Hk; cbn [Redirect.manager_loop fst].
  - lia.
  - assert (Hlen : forall e, length (log ++ [e]) = S (length log)) by (intros; rewrite app_length; simpl; lia).
    destruct (if redirect then redirect_location rs h else None) as [loc|]; cbn [fst]; rewrite ?Hlen; try lia.
    match goal with |- context [Retry.increment L ce re r ?m (IResponse ?s true)] =>
      destruct (increment r m (IResponse s true)) as [r'| |ie] eqn:Ei end;
      try (destruct (r_raise_on_redirect r); cbn [fst]; rewrite ?Hlen; lia).
    apply increment_redirect in Ei as (He & Ht & Hr & _).
    assert (Hb' : exists k', (r_redirect r' = CInt k' \/ r_total r' = CInt k') /\ 0 <= k' /\ k' = k - 1).
    { exists (k - 1). destruct Hb as [Hb|Hb].
      - rewrite Hb in Hr. simpl in Hr. split; [left; assumption|]. split; [|reflexivity].
        eapply (not_exhausted_count r' (r_redirect r') He); [unfold counts; simpl; tauto | eassumption].
      - rewrite Hb in Ht. simpl in Ht. split; [right; assumption|]. split; [|reflexivity].
        eapply (not_exhausted_count r' (r_total r') He); [unfold counts; simpl; tauto | eassumption]. }
    destruct Hb' as (k' & Hb' & Hk' & ->).
    eapply Nat.le_trans; [apply (IH _ _ r' _ (k - 1) Hb' Hk')|]. rewrite Hlen. lia.
Qed.

Lemma pool_budget script redirect asame pool cur rq r pr log k :
  (r_redirect r = CInt k \/ r_total r = CInt k) -> 0 <= k ->
  (length (fst (pool_loop script redirect asame pool cur rq (RObj r) pr log)) <= length log + 1 + Z.to_nat k)%nat.
Proof.
  revert cur rq r log k. induction script as [|h rest IH]; intros cur rq r log k Hb Hk; cbn [Redirect.pool_loop fst].
  - lia.
  - assert (Hlen : forall e, length (log ++ [e]) = S (length log)) by (intros; rewrite app_length; simpl; lia).
    destruct (asame && negb (is_same_host pool (t_origin cur))); cbn [fst]; try lia.
    destruct (if redirect then redirect_location rs h else None) as [loc|]; cbn [fst]; rewrite ?Hlen; try lia.
    match goal with |- context [Retry.increment L ce re r ?m (IResponse ?s true)] =>
      destruct (increment r m (IResponse s true)) as [r'| |ie] eqn:Ei end;
      try (destruct (r_raise_on_redirect r); cbn [fst]; rewrite ?Hlen; lia).
    apply increment_redirect in Ei as (He & Ht & Hr & _).
    assert (Hb' : (r_redirect r' = CInt (k - 1) \/ r_total r' = CInt (k - 1)) /\ 0 <= k - 1).
    { destruct Hb as [Hb|Hb].
      - rewrite Hb in Hr. simpl in Hr. split; [left; assumption|].
        eapply (not_exhausted_count r' (r_redirect r') He); [unfold counts; simpl; tauto | eassumption].
      - rewrite Hb in Ht. simpl in Ht. split; [right; assumption|].
        eapply (not_exhausted_count r' (r_total r') He); [unfold counts; simpl; tauto | eassumption]. }
    destruct Hb' as (Hb' & Hk').
    eapply Nat.le_trans; [apply (IH _ _ r' _ (k - 1) Hb' Hk')|]. rewrite Hlen. lia.
Qed.

(* ---------- redirect=False: exactly one request, the response is returned ---------- *)
Theorem redirect_disabled h rest cur rq kw pr vp :
  manager_loop (h :: rest) false cur rq kw pr vp [] = ([mkLog (t_origin cur) (t_path cur) rq], OResponse (status_of h)).
Proof. reflexivity. Qed.

(* a policy whose total is False never follows: one request, the 3xx is returned *)
Theorem retries_false_returns_response h rest cur rq r pr vp loc :
  r_total r = CFalse -> r_raise_on_redirect r = false -> redirect_location rs h = Some loc ->
  manager_loop (h :: rest) true cur rq (RObj r) pr vp [] = ([mkLog (t_origin cur) (t_path cur) rq], OResponse (status_of h)).
Proof.
  intros Ht Hr Hl. cbn [Redirect.manager_loop]. rewrite Hl.
  match goal with |- context [Retry.increment L ce re r ?m ?i] => destruct (increment r m i) as [r'| |ie] eqn:Ei end;
    try (rewrite Hr; reflexivity).
  exfalso. apply increment_redirect in Ei as (He & Htt & _). rewrite Ht in Htt. simpl in Htt.
  pose proof (not_exhausted_count r' (r_total r') He) as X.
  specialize (X ltac:(unfold counts; simpl; tauto) (-1) Htt). lia.
Qed.

(* ---------- the 303 rewrite ---------- *)
Lemma drop_headers_none names hs k v : In (k, v) (drop_headers names hs) -> mem_str (ascii_lower k) names = false.
Proof. unfold drop_headers. intros H. apply filter_In in H as [_ H]. apply negb_true_iff in H. exact H. Qed.

Lemma drop_headers_incl names hs : incl (drop_headers names hs) hs.
Proof. unfold drop_headers. intros x H. apply filter_In in H. tauto. Qed.

Lemma drop_headers_keeps names hs k v :
  In (k, v) hs -> mem_str (ascii_lower k) names = false -> In (k, v) (drop_headers names hs).
Proof. intros H Hm. unfold drop_headers. apply filter_In. split; [assumption|]. simpl. rewrite Hm. reflexivity. Qed.

Theorem see_other_is_bodyless_get rq :
  q_method (see_other ch rq) = S!"GET" /\ q_body (see_other ch rq) = false /\
  forall k v, In (k, v) (q_headers (see_other ch rq)) -> mem_str (ascii_lower k) (map ascii_lower ch) = false.
Proof. unfold see_other. simpl. repeat split. intros k v H. eapply drop_headers_none; eassumption. Qed.

(* ---------- every later request carries a subset of the current headers ---------- *)
Lemma manager_headers_shrink script redirect cur rq kw pr vp log e :
  In e (fst (manager_loop script redirect cur rq kw pr vp log)) ->
  In e log \/ incl (q_headers (l_req e)) (q_headers rq).
Proof.
  revert cur rq kw log. induction script as [|h rest IH]; intros cur rq kw log; cbn [Redirect.manager_loop fst].
  - auto.
  - set (ent := mkLog (t_origin cur) (t_path cur) rq).
    assert (Hbase : In e (log ++ [ent]) -> In e log \/ incl (q_headers (l_req e)) (q_headers rq)).
    { intros H. apply in_app_iff in H as [H|[<-|[]]]; [auto | right; simpl; apply incl_refl]. }
    destruct (if redirect then redirect_location rs h else None) as [loc|]; cbn [fst]; [|exact Hbase].
    match goal with |- context [Retry.increment L ce re ?r ?m ?i] => destruct (increment r m i) as [r'| |ie] end;
      try (match goal with |- context [if ?c then _ else _] => destruct c end; cbn [fst]; exact Hbase).
    intros H. apply IH in H as [H|H]; [apply Hbase; assumption|]. right.
    eapply incl_tran; [exact H|].
    (* the follow-up request's headers are the current ones after at most two filters *)
    match goal with |- incl (q_headers (if ?c then _ else ?x)) _ => destruct c; cbn [q_headers] end;
      try (eapply incl_tran; [apply drop_headers_incl|]);
      (destruct (status_of h =? GET303); [unfold see_other; cbn [q_headers]; apply drop_headers_incl | apply incl_refl]).
Qed.

(* ---------- C06: credentials never cross an origin boundary ---------- *)
Theorem credentials_stripped_after_cross_origin h rest cur rq r pr vp log loc e :
  redirect_location rs h = Some loc ->
  r_remove_headers r <> [] ->
  is_same_host (match vp with Some p => p | None => pool_of (t_origin cur) end) (t_origin loc) = false ->
  In e (fst (manager_loop (h :: rest) true cur rq (RObj r) pr vp log)) ->
  In e (log ++ [mkLog (t_origin cur) (t_path cur) rq]) \/
  (forall k v, In (k, v) (q_headers (l_req e)) -> mem_str (ascii_lower k) (r_remove_headers r) = false).
Proof.
  intros Hl Hrm Hsh. cbn [Redirect.manager_loop]. rewrite Hl.
  assert (Hne : negb (Nat.eqb (length (r_remove_headers r)) 0) = true) by (destruct (r_remove_headers r); [congruence | reflexivity]).
  rewrite Hne, Hsh. cbn [negb andb].
  match goal with |- context [Retry.increment L ce re r ?m ?i] => destruct (increment r m i) as [r'| |ie] end;
    try (destruct (r_raise_on_redirect r); simpl fst; intros H; left; exact H).
  intros H. apply manager_headers_shrink in H as [H|H]; [left; assumption|]. right.
  intros k v Hkv. apply H in Hkv. cbn [q_headers] in Hkv. eapply drop_headers_none; eassumption.
Qed.

(* headers outside the removal set (and outside the content headers dropped by a 303) are kept on the next request *)
Lemma next_request_keeps status rq rm k v :
  In (k, v) (q_headers rq) -> mem_str (ascii_lower k) rm = false ->
  (status = GET303 -> mem_str (ascii_lower k) (map ascii_lower ch) = false) ->
  In (k, v) (drop_headers rm (q_headers (if status =? GET303 then see_other ch rq else rq))).
Proof.
  intros Hin Hrm Hc. apply drop_headers_keeps; [|assumption].
  destruct (Z.eqb_spec status GET303) as [E|E]; [|assumption].
  unfold see_other. cbn [q_headers]. apply drop_headers_keeps; auto.
Qed.

(* a single-host pool refuses a cross-host target before sending anything *)
Theorem single_host_pool_refuses h rest redirect pool cur rq arg pr log :
  is_same_host pool (t_origin cur) = false ->
  pool_loop (h :: rest) redirect true pool cur rq arg pr log = (log, OHostChanged).
Proof. intros H. cbn [Redirect.pool_loop]. rewrite H. reflexivity. Qed.
End P.
