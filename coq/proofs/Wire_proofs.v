(* Proofs for C03 (model/Wire.v). *)
From Coq Require Import List Arith Bool Lia.
From V Require Import model.Wire.
Import ListNotations.

(* all delivered runs carry tag i, and they add up to at most `bound` bytes *)
Fixpoint total (ch : list (nat * nat)) : nat := match ch with [] => 0 | (_, c) :: r => c + total r end.
Definition own (i : nat) (ch : list (nat * nat)) : Prop := Forall (fun tc => fst tc = i) ch.

Lemma take_bytes_own i k ch : own i ch -> own i (take_bytes k ch).
Proof.
  revert k; induction ch as [|[t c] r IH]; intros k H; cbn [take_bytes]; [constructor|].
  apply Forall_cons_iff in H as [Ht Hr]. destruct (Nat.leb k c).
  - constructor; [exact Ht | constructor].
  - constructor; [exact Ht | apply IH; exact Hr].
Qed.

Lemma take_bytes_total k ch : total (take_bytes k ch) <= k /\ total (take_bytes k ch) <= total ch.
Proof.
  revert k; induction ch as [|[t c] r IH]; intros k; cbn [take_bytes total]; [lia|].
  destruct (Nat.leb_spec k c); cbn [total].
  - lia.
  - specialize (IH (k - c)). lia.
Qed.

(* ---------- checkout hands out only sockets with nothing pending ---------- *)
Lemma evs_of_filter_other evs s s' :
  s <> s' -> evs_of (filter (fun kv => negb (Nat.eqb (fst kv) s)) evs) s' = evs_of evs s'.
Proof.
  intros Hne; induction evs as [|[k v] r IH]; cbn [filter evs_of fst]; [reflexivity|].
  destruct (Nat.eqb_spec k s) as [->|Hk]; cbn [negb].
  - destruct (Nat.eqb_spec s s'); [contradiction|exact IH].
  - cbn [evs_of]. rewrite IH. reflexivity.
Qed.

(* nothing is being held back on any socket *)
Definition hold_free (l : list item) : Prop := ~ In IHold l.
Definition no_hold (st : state) : Prop := forall s, hold_free (evs_of (s_evs st) s).

Lemma classic_in_hold (l : list item) : In IHold l \/ hold_free l.
Proof.
  induction l as [|x l IH]; [right; intros H; exact H|].
  destruct x; try (destruct IH as [H|H]; [left; right; exact H|right; intros [Hx|Hx]; [discriminate|exact (H Hx)]]).
  left; left; reflexivity.
Qed.

Theorem checkout_clean st st1 s d :
  no_hold st -> checkout st = (st1, Some (s, d)) -> evs_of (s_evs st1) s = [].
Proof.
  intros Hn. unfold checkout. destruct (s_q st) as [|[[s0 d0]|] q]; try discriminate.
  pose proof (Hn s0) as Hf. destruct (evs_of (s_evs st) s0) as [|[t r|t c|t| |] rest] eqn:He; try discriminate.
  - intros H; inversion H; subst. cbn. exact He.
  - exfalso. apply Hf. left; reflexivity.
Qed.

Lemma evs_of_closed evs s : evs_of (filter (fun kv => negb (Nat.eqb (fst kv) s)) evs) s = [].
Proof.
  induction evs as [|[k v] r IH]; cbn [filter evs_of fst]; [reflexivity|].
  destruct (Nat.eqb_spec k s) as [->|Hk]; cbn [negb]; [exact IH|].
  cbn [evs_of]. destruct (Nat.eqb_spec k s); [contradiction|exact IH].
Qed.

Theorem pending_is_discarded st s d q x xs :
  s_q st = Some (s, d) :: q -> evs_of (s_evs st) s = x :: xs -> x <> IHold ->
  exists st1, checkout st = (st1, None) /\ evs_of (s_evs st1) s = [] /\ s_q st1 = q.
Proof.
  intros Hq He Hx. unfold checkout. rewrite Hq, He. destruct x; try congruence.
  all: eexists; split; [reflexivity|]; split; [|reflexivity]; cbn; apply evs_of_closed.
Qed.

(* ---------- readers on a served stream deliver own bytes only ---------- *)
Lemma pull_unfold need have items :
  pull need have items =
  if Nat.leb need have then ([], have, items, false) else
  match items with
  | [] => ([], have, [], true)
  | IEof :: _ => ([], have, items, true)
  | IHold :: _ => ([], have, items, true)
  | IData t c :: more =>
      let '(ch, h, it, e) := pull need (have + c) more in ((t, Nat.min c (need - have)) :: ch, h, it, e)
  | IResp t _ :: more => let '(ch, h, it, e) := pull need (have + 1) more in ((t, 1) :: ch, h, it, e)
  | IJunk t :: more => let '(ch, h, it, e) := pull need (have + 1) more in ((t, 1) :: ch, h, it, e)
  end.
Proof. destruct items as [|[| | | |] ?]; reflexivity. Qed.

(* what follows the head of a reply to request i: the rest of what was sent of its body ... *)
Definition cont (i : nat) (r : reply) : list item :=
  if Nat.ltb (k_first r) (k_sent r) then [IData i (k_sent r - k_first r)] else [].
(* the stream stops here: the peer has closed, or is holding the rest back *)
Definition eof_first (rest : list item) : Prop := exists rest', rest = IEof :: rest' \/ rest = IHold :: rest'.

Lemma pull_own i r need rest :
  k_first r <= k_sent r ->
  (need <= k_sent r \/ eof_first rest) ->
  own i (fst (fst (fst (pull need (k_first r) (cont i r ++ rest))))) /\
  k_first r + total (fst (fst (fst (pull need (k_first r) (cont i r ++ rest))))) <= k_sent r.
Proof.
  intros Hfs Hor. unfold cont. destruct (Nat.ltb_spec (k_first r) (k_sent r)) as [Hlt|Hge]; cbn [app].
  - rewrite pull_unfold. destruct (Nat.leb_spec need (k_first r)); cbn [fst total]; [split; [constructor|lia]|].
    replace (k_first r + (k_sent r - k_first r)) with (k_sent r) by lia.
    rewrite pull_unfold. destruct (Nat.leb_spec need (k_sent r)) as [Hle|Hgt]; cbn [fst total].
    + split; [constructor; [reflexivity|constructor]|lia].
    + destruct Hor as [Hc|[rest' [-> | ->]]]; [lia| |]; cbn [fst total]; (split; [constructor; [reflexivity|constructor]|lia]).
  - rewrite pull_unfold. destruct (Nat.leb_spec need (k_first r)); cbn [fst total]; [split; [constructor|lia]|].
    destruct Hor as [Hc|[rest' [-> | ->]]]; [lia| |]; cbn [fst total]; (split; [constructor|lia]).
Qed.

Lemma pull_eof_own i r stop rest' :
  stop = IEof \/ stop = IHold ->
  k_first r <= k_sent r ->
  own i (fst (pull_eof (cont i r ++ stop :: rest'))) /\
  k_first r + total (fst (pull_eof (cont i r ++ stop :: rest'))) <= k_sent r.
Proof.
  intros [-> | ->] Hfs; unfold cont; destruct (Nat.ltb_spec (k_first r) (k_sent r)); cbn [app pull_eof fst total].
  all: try (split; [constructor; [reflexivity|constructor]|lia]).
  all: split; [constructor|lia].
Qed.

Definition served_tail (i : nat) (r : reply) (tl : list item) : Prop :=
  exists rest, tl = cont i r ++ rest /\ k_first r <= k_sent r /\ k_sent r <= k_n r /\
               (k_sent r < k_n r \/ k_framing r = FEof -> eof_first rest).

Definition bounded (i : nat) (r : reply) (d : list (nat * nat)) : Prop := own i d /\ total d <= k_sent r.

Lemma own_cons i c ch : own i ch -> own i ((i, c) :: ch).
Proof. intros H; constructor; [reflexivity|exact H]. Qed.

Lemma take_bounded i r k all : own i all -> total all <= k_sent r -> bounded i r (take_bytes k all).
Proof. intros Ho Ht; split; [apply take_bytes_own; exact Ho|]. pose proof (take_bytes_total k all). lia. Qed.

Lemma nil_bounded i r : bounded i r [].
Proof. split; [constructor|cbn; lia]. Qed.

Lemma to_end_own i r bl tl amt :
  (bl = false -> served_tail i r tl) -> bounded i r (fst (fst (to_end i r bl tl amt))).
Proof.
  intros Hs. unfold to_end. destruct bl; [apply nil_bounded|].
  destruct (Hs eq_refl) as (rest & -> & Hfs & Hsn & Heof).
  destruct (k_framing r) eqn:Hf.
  - (* FLen *)
    assert (Hor : k_n r <= k_sent r \/ eof_first rest) by (destruct (Nat.ltb_spec (k_sent r) (k_n r)); [right; apply Heof; left; assumption|left; assumption]).
    pose proof (pull_own i r (k_n r) rest Hfs Hor) as [Ho Ht].
    destruct (pull (k_n r) (k_first r) (cont i r ++ rest)) as [[[ch have] it] short]; cbn [fst] in *.
    assert (Hall : own i ((i, k_first r) :: ch)) by (apply own_cons; exact Ho).
    assert (Htot : total ((i, k_first r) :: ch) <= k_sent r) by (cbn [total]; lia).
    destruct short; [|cbn [fst]; split; assumption].
    destruct amt; cbn [fst]; [apply take_bounded; assumption|apply nil_bounded].
  - (* FEof *)
    destruct (Heof (or_intror eq_refl)) as [rest' Hst].
    assert (Hx : exists stop, (stop = IEof \/ stop = IHold) /\ rest = stop :: rest')
      by (destruct Hst as [-> | ->]; eexists; (split; [|reflexivity]); [left|right]; reflexivity).
    destruct Hx as (stop & Hstop & ->).
    pose proof (pull_eof_own i r stop rest' Hstop Hfs) as [Ho Ht].
    destruct (pull_eof (cont i r ++ stop :: rest')) as [ch it]; cbn [fst] in *.
    split; [apply own_cons; exact Ho|cbn [total]; lia].
  - (* FChunked *)
    assert (Hor : k_n r <= k_sent r \/ eof_first rest) by (destruct (Nat.ltb_spec (k_sent r) (k_n r)); [right; apply Heof; left; assumption|left; assumption]).
    pose proof (pull_own i r (k_n r) rest Hfs Hor) as [Ho Ht].
    destruct (pull (k_n r) (k_first r) (cont i r ++ rest)) as [[[ch have] it] short]; cbn [fst] in *.
    assert (Hall : own i ((i, k_first r) :: ch)) by (apply own_cons; exact Ho).
    assert (Htot : total ((i, k_first r) :: ch) <= k_sent r) by (cbn [total]; lia).
    destruct short; [|cbn [fst]; split; assumption].
    destruct amt; cbn [fst]; [apply take_bounded; assumption|apply nil_bounded].
Qed.

Section Release.
Variable rc : bool.
Local Notation respond := (Wire.respond rc).
Local Notation attempt := (Wire.attempt rc).
Local Notation urlopen := (Wire.urlopen rc).
Local Notation run_history := (Wire.run_history rc).

Lemma respond_own i r bl tl c :
  (bl = false -> served_tail i r tl) -> bounded i r (fst (fst (respond i r bl tl c))).
Proof.
  intros Hs. unfold Wire.respond. destruct c as [|k| | | | |a|k1].
  - pose proof (to_end_own i r bl tl None Hs). destruct (to_end i r bl tl None) as [[d err] it]; exact H.
  - destruct (bl || Nat.leb (k_n r) k && negb (match k_framing r with FEof => true | _ => false end)) eqn:Hc.
    + pose proof (to_end_own i r bl tl None Hs). destruct (to_end i r bl tl None) as [[d err] it]; exact H.
    + apply orb_false_iff in Hc as [-> Hc]. destruct (Hs eq_refl) as (rest & -> & Hfs & Hsn & Heof).
      assert (Hor : k <= k_sent r \/ eof_first rest).
      { destruct (k_framing r) eqn:Hf; cbn [negb] in Hc.
        - rewrite andb_true_r in Hc. apply Nat.leb_gt in Hc.
          destruct (Nat.ltb_spec (k_sent r) (k_n r)); [right; apply Heof; left; assumption|left; lia].
        - right; apply Heof; right; reflexivity.
        - rewrite andb_true_r in Hc. apply Nat.leb_gt in Hc.
          destruct (Nat.ltb_spec (k_sent r) (k_n r)); [right; apply Heof; left; assumption|left; lia]. }
      pose proof (pull_own i r k rest Hfs Hor) as [Ho Ht].
      destruct (pull k (k_first r) (cont i r ++ rest)) as [[[ch have] it] short]; cbn [fst] in *.
      assert (Hall : own i ((i, k_first r) :: ch)) by (apply own_cons; exact Ho).
      assert (Htot : total ((i, k_first r) :: ch) <= k_sent r) by (cbn [total]; lia).
      destruct (k_framing r); [destruct short| |destruct short]; cbn [fst];
        try apply nil_bounded; apply take_bounded; assumption.
  - apply nil_bounded.
  - apply nil_bounded.
  - destruct (to_end i r bl tl None) as [[d err] it]; apply nil_bounded.
  - apply nil_bounded.
  - pose proof (to_end_own i r bl tl (Some (Nat.max a 1)) Hs).
    destruct (to_end i r bl tl (Some (Nat.max a 1))) as [[d err] it]; exact H.
  - destruct bl; [apply nil_bounded|]. destruct (Hs eq_refl) as (rest & -> & Hfs & Hsn & Heof).
    destruct (Nat.ltb_spec 0 (k_first r)) as [Hpos|Hz]; cbn [fst].
    + split; [constructor; [reflexivity|constructor]|cbn [total]; lia].
    + assert (Hf0 : k_first r = 0) by lia. unfold cont. rewrite Hf0.
      destruct (k_n r) as [|n'] eqn:Hn; [apply nil_bounded|].
      destruct (Nat.ltb_spec 0 (k_sent r)) as [Hs1|Hs0]; cbn [app fst].
      * split; [constructor; [reflexivity|constructor]|cbn [total]; lia].
      * assert (He : eof_first rest) by (apply Heof; left; lia). destruct He as [rest' [-> | ->]]; cbn [fst]; apply nil_bounded.
Qed.

(* ---------- what the server writes ---------- *)
Lemma bodyless_norm head r0 : bodyless head (norm head r0) = bodyless head r0.
Proof.
  unfold norm. destruct (bodyless head r0) eqn:Hb; [exact Hb|].
  destruct (k_framing r0); unfold bodyless in *; cbn [k_status]; exact Hb.
Qed.

(* what follows the head of the reply in what the server writes *)
Definition serve_tail (i : nat) (head : bool) (r0 : reply) : list item :=
  let r := norm head r0 in
  let bl := bodyless head r0 in
  let complete := bl || Nat.eqb (k_sent r) (k_n r) in
  (if Nat.ltb (k_first r) (k_sent r) then [IData i (k_sent r - k_first r)] else [])
  ++ (if complete then match k_stray r with
                       | SSepResp => [IResp (stray_tag i) stray_reply]
                       | SSepJunk => [IJunk (stray_tag i)]
                       | _ => []
                       end else [])
  ++ (if is_late r bl complete then [IHold; IResp i late_reply; IJunk i]
      else if negb (k_keep r) || negb complete || k_eof_after r || (match k_framing r with FEof => true | _ => false end)
      then [IEof] else []).

Lemma serve_is i head r0 : k_kind r0 <> 1 -> k_kind r0 <> 2 -> serve i head r0 = IResp i (norm head r0) :: serve_tail i head r0.
Proof. intros H1 H2. unfold serve, serve_tail. destruct (k_kind r0) as [|[|[|k]]]; try contradiction; reflexivity. Qed.

(* the rest of the body is being held back *)
Definition late_tail (i : nat) (r : reply) (tl : list item) : Prop :=
  (k_framing r = FLen \/ k_framing r = FChunked) /\ k_first r <= k_sent r /\ k_sent r < k_n r /\
  exists more, tl = cont i r ++ IHold :: more.

Lemma in_app3 (x : item) a b c : In x (a ++ b ++ c) -> In x a \/ In x b \/ In x c.
Proof. intros H. apply in_app_or in H as [H|H]; [left; exact H|]. apply in_app_or in H as [H|H]; [right; left|right; right]; exact H. Qed.

Lemma serve_tail_shape i head r0 :
  (bodyless head r0 = false -> served_tail i (norm head r0) (serve_tail i head r0)) /\
  (In IHold (serve_tail i head r0) -> bodyless head r0 = false /\ late_tail i (norm head r0) (serve_tail i head r0)).
Proof.
  unfold serve_tail. set (r := norm head r0). destruct (bodyless head r0) eqn:Hb.
  - (* nothing of a body: no hold *)
    split; [discriminate|]. cbn [orb]. unfold is_late. cbn [negb andb]. intros Hin. exfalso.
    apply in_app3 in Hin as [Hin|[Hin|Hin]].
    + destruct (Nat.ltb _ _); cbn in Hin; [destruct Hin as [Hin|[]]; discriminate|contradiction].
    + destruct (k_stray r); cbn in Hin; try contradiction; destruct Hin as [Hin|[]]; discriminate.
    + destruct (_ || _); cbn in Hin; [destruct Hin as [Hin|[]]; discriminate|contradiction].
  - cbn [orb]. subst r. unfold norm. rewrite Hb.
    destruct (k_framing r0) eqn:Hf; cbn [k_first k_sent k_n k_framing k_keep k_stray k_eof_after].
    + (* FLen *)
      destruct (Nat.ltb_spec (k_sent r0) (k_n r0)) as [Hlt|Hge].
      * replace (Nat.min (k_sent r0) (k_n r0)) with (k_sent r0) by lia.
        replace (Nat.eqb (k_sent r0) (k_n r0)) with false by (symmetry; apply Nat.eqb_neq; lia).
        unfold is_late; cbn [negb andb app k_stray k_framing].
        destruct (k_stray r0) eqn:Hst; cbn [app].
        all: try (split; [intros _; unfold served_tail, cont; cbn [k_first k_sent k_n k_framing]; eexists; split; [reflexivity|];
                          split; [lia|]; split; [lia|]; intros _; rewrite orb_true_r; cbn [orb]; eexists; left; reflexivity
                         |rewrite orb_true_r; cbn [orb]; intros Hin; exfalso; apply in_app_or in Hin as [Hin|Hin];
                          [destruct (Nat.ltb _ _); cbn in Hin; [destruct Hin as [Hin|[]]; discriminate|contradiction]
                          |cbn in Hin; destruct Hin as [Hin|[]]; discriminate]]).
        (* SLate *)
        split.
        -- intros _. unfold served_tail, cont; cbn [k_first k_sent k_n k_framing]. eexists; split; [reflexivity|].
           split; [lia|]. split; [lia|]. intros _. eexists; right; reflexivity.
        -- intros _. split; [reflexivity|]. unfold late_tail, cont; cbn [k_first k_sent k_n k_framing].
           split; [left; reflexivity|]. split; [lia|]. split; [lia|]. eexists; reflexivity.
      * replace (Nat.min (k_sent r0) (k_n r0)) with (k_n r0) by lia. rewrite Nat.eqb_refl.
        unfold is_late; cbn [negb andb app].
        split.
        -- intros _. unfold served_tail, cont; cbn [k_first k_sent k_n k_framing]. eexists; split; [reflexivity|].
           split; [lia|]. split; [lia|]. intros [Hx|Hx]; [lia|discriminate].
        -- intros Hin. exfalso. apply in_app3 in Hin as [Hin|[Hin|Hin]].
           ++ destruct (Nat.ltb _ _); cbn in Hin; [destruct Hin as [Hin|[]]; discriminate|contradiction].
           ++ destruct (k_stray r0); cbn in Hin; try contradiction; destruct Hin as [Hin|[]]; discriminate.
           ++ destruct (_ || _); cbn in Hin; [destruct Hin as [Hin|[]]; discriminate|contradiction].
    + (* FEof *)
      rewrite Nat.eqb_refl. unfold is_late; cbn [negb andb app k_stray k_framing]. rewrite !orb_true_r.
      split.
      * intros _. unfold served_tail, cont; cbn [k_first k_sent k_n k_framing]. eexists; split; [reflexivity|].
        split; [lia|]. split; [lia|]. intros _. eexists; left; reflexivity.
      * intros Hin. exfalso. apply in_app_or in Hin as [Hin|Hin].
        -- destruct (Nat.ltb _ _); cbn in Hin; [destruct Hin as [Hin|[]]; discriminate|contradiction].
        -- cbn in Hin; destruct Hin as [Hin|[]]; discriminate.
    + (* FChunked *)
      destruct (Nat.ltb_spec (k_sent r0) (k_n r0)) as [Hlt|Hge].
      * replace (Nat.min (k_sent r0) (k_n r0)) with (k_sent r0) by lia.
        replace (Nat.eqb (k_sent r0) (k_n r0)) with false by (symmetry; apply Nat.eqb_neq; lia).
        unfold is_late; cbn [negb andb app k_stray k_framing].
        destruct (k_stray r0) eqn:Hst; cbn [app].
        all: try (split; [intros _; unfold served_tail, cont; cbn [k_first k_sent k_n k_framing]; eexists; split; [reflexivity|];
                          split; [lia|]; split; [lia|]; intros _; rewrite orb_true_r; cbn [orb]; eexists; left; reflexivity
                         |rewrite orb_true_r; cbn [orb]; intros Hin; exfalso; apply in_app_or in Hin as [Hin|Hin];
                          [destruct (Nat.ltb _ _); cbn in Hin; [destruct Hin as [Hin|[]]; discriminate|contradiction]
                          |cbn in Hin; destruct Hin as [Hin|[]]; discriminate]]).
        split.
        -- intros _. unfold served_tail, cont; cbn [k_first k_sent k_n k_framing]. eexists; split; [reflexivity|].
           split; [lia|]. split; [lia|]. intros _. eexists; right; reflexivity.
        -- intros _. split; [reflexivity|]. unfold late_tail, cont; cbn [k_first k_sent k_n k_framing].
           split; [right; reflexivity|]. split; [lia|]. split; [lia|]. eexists; reflexivity.
      * replace (Nat.min (k_sent r0) (k_n r0)) with (k_n r0) by lia. rewrite Nat.eqb_refl.
        unfold is_late; cbn [negb andb app].
        split.
        -- intros _. unfold served_tail, cont; cbn [k_first k_sent k_n k_framing]. eexists; split; [reflexivity|].
           split; [lia|]. split; [lia|]. intros [Hx|Hx]; [lia|discriminate].
        -- intros Hin. exfalso. apply in_app3 in Hin as [Hin|[Hin|Hin]].
           ++ destruct (Nat.ltb _ _); cbn in Hin; [destruct Hin as [Hin|[]]; discriminate|contradiction].
           ++ destruct (k_stray r0); cbn in Hin; try contradiction; destruct Hin as [Hin|[]]; discriminate.
           ++ destruct (_ || _); cbn in Hin; [destruct Hin as [Hin|[]]; discriminate|contradiction].
Qed.

Lemma serve_shape i head r0 :
  k_kind r0 <> 1 -> k_kind r0 <> 2 ->
  exists tl, serve i head r0 = IResp i (norm head r0) :: tl /\
             (bodyless head r0 = false -> served_tail i (norm head r0) tl) /\
             (In IHold tl -> bodyless head r0 = false /\ late_tail i (norm head r0) tl).
Proof.
  intros H1 H2. exists (serve_tail i head r0). split; [apply serve_is; assumption|apply serve_tail_shape].
Qed.

(* ---------- urlopen ---------- *)
Definition result_ok (script : list reply) (i : nat) (rq : request) (res : result) : Prop :=
  own i (r_delivered res) /\
  (r_delivered res = [] \/
   exists r0, In r0 script /\ k_kind r0 <> 1 /\ k_kind r0 <> 2 /\
              total (r_delivered res) <= k_sent (norm (q_head rq) r0) /\
              k_sent (norm (q_head rq) r0) <= k_n (norm (q_head rq) r0)).

Lemma evs_head s v evs : evs_of ((s, v) :: evs) s = v.
Proof. cbn [evs_of]. rewrite Nat.eqb_refl. reflexivity. Qed.

Lemma result_ok_more r0 more i rq res : result_ok more i rq res -> result_ok (r0 :: more) i rq res.
Proof.
  intros [Ho [Hn|(r & Hin & H)]]; split; try exact Ho; [left; exact Hn|right; exists r; split; [right; exact Hin|exact H]].
Qed.

Lemma put_script M st slot : s_script (put M st slot) = s_script st.
Proof. unfold put. destruct (Nat.ltb _ _); [reflexivity|]. destruct slot as [[s d]|]; reflexivity. Qed.


Lemma checkout_script st : s_script (fst (checkout st)) = s_script st.
Proof.
  unfold checkout. destruct (s_q st) as [|[[s0 d0]|] q]; [reflexivity| |reflexivity].
  destruct (evs_of (s_evs st) s0) as [|[| | | |] ?]; reflexivity.
Qed.

Lemma hold_free_nil : hold_free [].
Proof. intros H; exact H. Qed.

Lemma no_hold_set_q st q : no_hold st -> no_hold (set_q st q).
Proof. intros H s. exact (H s). Qed.

Lemma no_hold_close st s : no_hold st -> no_hold (close_sock st s).
Proof.
  intros H s'. cbn [close_sock s_evs]. destruct (Nat.eq_dec s s') as [->|Hne].
  - rewrite evs_of_closed. apply hold_free_nil.
  - rewrite evs_of_filter_other by exact Hne. exact (H s').
Qed.

Lemma no_hold_put M st slot : no_hold st -> no_hold (put M st slot).
Proof.
  intros H. unfold put. destruct (Nat.ltb _ _); [apply no_hold_set_q; exact H|].
  destruct slot as [[s d]|]; [apply no_hold_close; exact H|exact H].
Qed.

Lemma no_hold_cons st s v : no_hold st -> hold_free v ->
  no_hold (mkSt (s_q st) ((s, v) :: s_evs st) (s_nsid st) (s_script st)).
Proof.
  intros H Hv s'. cbn [s_evs evs_of]. destruct (Nat.eqb s s'); [exact Hv|exact (H s')].
Qed.

Lemma checkout_no_hold st : no_hold st -> no_hold (fst (checkout st)).
Proof.
  intros H. unfold checkout. destruct (s_q st) as [|[[s0 d0]|] q]; cbn [fst]; [exact H| |apply no_hold_set_q; exact H].
  destruct (evs_of (s_evs st) s0) as [|[| | | |] ?]; cbn [fst];
    try (apply no_hold_close); apply no_hold_set_q; exact H.
Qed.

Lemma acquire_clean st st2 s d :
  no_hold st -> acquire st = (st2, s, d) -> evs_of (s_evs st2) s = [] /\ s_script st2 = s_script st /\ no_hold st2.
Proof.
  intros Hn. unfold acquire. destruct (checkout st) as [st1 slot] eqn:Hco.
  pose proof (checkout_script st) as Hscr1. pose proof (checkout_no_hold st Hn) as Hn1. rewrite Hco in Hscr1, Hn1. cbn [fst] in *.
  destruct slot as [[s0 d0]|].
  - intros H; inversion H; subst. split; [eapply checkout_clean; [exact Hn|exact Hco]|]. split; [exact Hscr1|exact Hn1].
  - cbn [open_sock]. intros H; inversion H; subst. cbn [s_evs s_script]. split; [apply evs_head|]. split; [exact Hscr1|].
    apply (no_hold_cons st1 (s_nsid st1) [] Hn1 hold_free_nil).
Qed.

Lemma apply_after_script M st s a : s_script (apply_after M st s a) = s_script st.
Proof. destruct a; cbn [apply_after]; rewrite ?put_script; reflexivity. Qed.

Lemma attempt_script M st2 s d i rq r0 more : s_script (fst (attempt M st2 s d i rq r0 more)) = more.
Proof.
  unfold Wire.attempt. destruct d; [cbn [fst]; rewrite put_script; reflexivity|].
  cbn [s_evs]. rewrite evs_head.
  destruct (unhold (evs_of (s_evs st2) s) ++ serve i (q_head rq) r0) as [|[t r|t c|t| |] rest];
    try (cbn [fst]; rewrite put_script; reflexivity).
  destruct (q_preload rq).
  - destruct (to_end _ _ _ _ _) as [[d0 err] it]. destruct err; cbn [fst]; [rewrite put_script|rewrite apply_after_script]; reflexivity.
  - destruct (respond _ _ _ _ _) as [[d0 err] a]. cbn [fst]. rewrite apply_after_script. reflexivity.
Qed.

Lemma attempt_own M st2 s d i rq r0 more st4 res :
  evs_of (s_evs st2) s = [] ->
  attempt M st2 s d i rq r0 more = (st4, Some res) -> result_ok (r0 :: more) i rq res.
Proof.
  intros Hclean. unfold Wire.attempt. destruct d; [discriminate|].
  cbn [s_evs]. rewrite evs_head, Hclean. cbn [unhold app].
  destruct (Nat.eq_dec (k_kind r0) 1) as [K1|K1]; [unfold serve; rewrite K1; discriminate|].
  destruct (Nat.eq_dec (k_kind r0) 2) as [K2|K2]; [unfold serve; rewrite K2; discriminate|].
  destruct (serve_shape i (q_head rq) r0 K1 K2) as (tl & -> & Hshape & _).
  rewrite bodyless_norm.
  assert (Hsn : bodyless (q_head rq) r0 = false -> k_sent (norm (q_head rq) r0) <= k_n (norm (q_head rq) r0))
    by (intros Hb; destruct (Hshape Hb) as (? & _ & _ & H & _); exact H).
  assert (Hfin : forall d0, bounded i (norm (q_head rq) r0) d0 -> forall e st', result_ok (r0 :: more) i rq (mkRes OResp (k_status (norm (q_head rq) r0)) d0 e (Some s) st')).
  { intros d0 [Ho Ht] e st'. split; [exact Ho|]. cbn [r_delivered].
    destruct (bodyless (q_head rq) r0) eqn:Hb.
    - destruct d0 as [|[t c] d0]; [left; reflexivity|]. right. exists r0. split; [left; reflexivity|]. repeat split; try assumption.
      unfold norm in *. rewrite Hb in *. cbn [k_sent k_n] in *. lia.
    - right. exists r0. split; [left; reflexivity|]. repeat split; try assumption. apply Hsn; reflexivity. }
  destruct (q_preload rq).
  - pose proof (to_end_own i (norm (q_head rq) r0) (bodyless (q_head rq) r0) tl None Hshape) as Hb.
    destruct (to_end _ _ _ _ _) as [[d0 err] it]. cbn [fst] in Hb. destruct err; [discriminate|].
    intros H; inversion H; subst. apply Hfin; exact Hb.
  - pose proof (respond_own i (norm (q_head rq) r0) (bodyless (q_head rq) r0) tl (q_caller rq) Hshape) as Hb.
    destruct (respond _ _ _ _ _) as [[d0 err] a]. cbn [fst] in Hb.
    intros H; inversion H; subst. apply Hfin; exact Hb.
Qed.

(* every request of a history *)
Fixpoint all_ok (script : list reply) (i : nat) (reqs : list request) (rs : list result) : Prop :=
  match reqs, rs with
  | rq :: reqs', r :: rs' => result_ok script i rq r /\ all_ok script (S i) reqs' rs'
  | _, [] => True
  | [], _ :: _ => False
  end.

Lemma result_ok_app used script i rq res : result_ok script i rq res -> result_ok (used ++ script) i rq res.
Proof. induction used as [|u used IH]; intros H; [exact H|]. cbn [app]. apply result_ok_more, IH, H. Qed.

Lemma all_ok_app used : forall script i reqs rs, all_ok script i reqs rs -> all_ok (used ++ script) i reqs rs.
Proof.
  intros script i reqs rs; revert i reqs. induction rs as [|r rs IH]; intros i reqs H; destruct reqs as [|rq reqs]; cbn [all_ok] in *; try exact H.
  destruct H as [H1 H2]. split; [apply result_ok_app; exact H1|apply IH; exact H2].
Qed.

(* ---------- connections that are not clean never yield a response ---------- *)
Theorem dirty_never_yields M st2 s i rq r0 more :
  exists st4, attempt M st2 s true i rq r0 more = (st4, None) /\ evs_of (s_evs st4) s = [].
Proof.
  unfold Wire.attempt. eexists; split; [reflexivity|].
  unfold put. destruct (Nat.ltb _ _); cbn [set_q close_sock s_evs s_q]; apply evs_of_closed.
Qed.

Lemma failed_closes M st3 s : evs_of (s_evs (put M (close_sock st3 s) None)) s = [].
Proof. unfold put. destruct (Nat.ltb _ _); cbn [set_q close_sock s_evs s_q]; apply evs_of_closed. Qed.

(* after a failed attempt the retry runs on a socket opened for it *)
Theorem retry_on_fresh_socket M st2 s d i rq r0 more st4 :
  length (s_q st2) < M ->
  attempt M st2 s d i rq r0 more = (st4, None) ->
  acquire st4 = (fst (open_sock (set_q st4 (s_q st2))), s_nsid st4, false) /\ s_nsid st4 = s_nsid st2.
Proof.
  intros Hlen. unfold Wire.attempt.
  set (st3 := mkSt (s_q st2) _ (s_nsid st2) more).
  assert (Hf : forall st4, (put M (close_sock st3 s) None, @None result) = (st4, None) ->
               acquire st4 = (fst (open_sock (set_q st4 (s_q st2))), s_nsid st4, false) /\ s_nsid st4 = s_nsid st2).
  { intros st4' H; inversion H; subst st4'. unfold put. cbn [close_sock s_q st3].
    apply Nat.ltb_lt in Hlen. rewrite Hlen. unfold acquire, checkout. cbn [set_q s_q s_evs s_nsid s_script open_sock fst]. split; reflexivity. }
  destruct d; [apply Hf|].
  destruct (evs_of (s_evs st3) s) as [|[t r|t c|t| |] rest]; try apply Hf.
  destruct (q_preload rq).
  - destruct (to_end _ _ _ _ _) as [[d0 err] it]. destruct err; [apply Hf|discriminate].
  - destruct (respond _ _ _ _ _) as [[d0 err] a]. discriminate.
Qed.
End Release.

(* ---------- late bodies: nothing held back ever sits on a pooled socket (release_conn() as fixed: rc = true) ---------- *)
Lemma hold_free_suffix pre it : hold_free (pre ++ it) -> hold_free it.
Proof. intros H Hin. apply H. apply in_or_app. right; exact Hin. Qed.

Lemma pull_suffix : forall items need have, exists pre, items = pre ++ snd (fst (pull need have items)).
Proof.
  induction items as [|x items IH]; intros need have; rewrite pull_unfold.
  - destruct (Nat.leb need have); exists []; reflexivity.
  - destruct (Nat.leb need have); [exists []; reflexivity|].
    destruct x as [t r|t c|t| |]; try (exists []; reflexivity).
    + destruct (IH need (have + 1)) as [pre Hp]. destruct (pull need (have + 1) items) as [[[ch h] it] e]. cbn [fst snd] in *.
      exists (IResp t r :: pre). cbn [app]. rewrite <- Hp. reflexivity.
    + destruct (IH need (have + c)) as [pre Hp]. destruct (pull need (have + c) items) as [[[ch h] it] e]. cbn [fst snd] in *.
      exists (IData t c :: pre). cbn [app]. rewrite <- Hp. reflexivity.
    + destruct (IH need (have + 1)) as [pre Hp]. destruct (pull need (have + 1) items) as [[[ch h] it] e]. cbn [fst snd] in *.
      exists (IJunk t :: pre). cbn [app]. rewrite <- Hp. reflexivity.
Qed.

Lemma pull_eof_suffix : forall items, exists pre, items = pre ++ snd (pull_eof items).
Proof.
  induction items as [|x items IH]; [exists []; reflexivity|].
  destruct x as [t r|t c|t| |]; cbn [pull_eof]; try (exists []; reflexivity).
  all: destruct IH as [pre Hp]; destruct (pull_eof items) as [ch it]; cbn [snd] in *.
  - exists (IResp t r :: pre). cbn [app]. rewrite <- Hp. reflexivity.
  - exists (IData t c :: pre). cbn [app]. rewrite <- Hp. reflexivity.
  - exists (IJunk t :: pre). cbn [app]. rewrite <- Hp. reflexivity.
Qed.

Lemma to_end_hold_free t r bl rest amt : hold_free rest -> hold_free (snd (to_end t r bl rest amt)).
Proof.
  intros H. unfold to_end. destruct bl; [exact H|].
  destruct (k_framing r).
  - destruct (pull_suffix rest (k_n r) (k_first r)) as [pre Hp].
    destruct (pull (k_n r) (k_first r) rest) as [[[ch have] it] short]. cbn [fst snd] in Hp.
    assert (Hit : hold_free it) by (rewrite Hp in H; exact (hold_free_suffix _ _ H)).
    destruct short; [destruct amt|]; exact Hit.
  - destruct (pull_eof_suffix rest) as [pre Hp]. destruct (pull_eof rest) as [ch it]. cbn [snd] in *.
    rewrite Hp in H. exact (hold_free_suffix _ _ H).
  - destruct (pull_suffix rest (k_n r) (k_first r)) as [pre Hp].
    destruct (pull (k_n r) (k_first r) rest) as [[[ch have] it] short]. cbn [fst snd] in Hp.
    assert (Hit : hold_free it) by (rewrite Hp in H; exact (hold_free_suffix _ _ H)).
    destruct short; [destruct amt|]; exact Hit.
Qed.

Lemma fin_put keep it it' dirty : fin keep it = APut it' dirty -> it' = it.
Proof. unfold fin. destruct keep; intros H; inversion H; reflexivity. Qed.
Lemma released_put rc keep it it' dirty : released_unread rc keep it = APut it' dirty -> it' = it.
Proof. unfold released_unread. destruct rc; [discriminate|apply fin_put]. Qed.

Lemma respond_hold_free rc i r bl tl c d err it dirty :
  hold_free tl -> Wire.respond rc i r bl tl c = (d, err, APut it dirty) -> hold_free it.
Proof.
  intros Hf. unfold Wire.respond. destruct c as [|k| | | | |a|k1].
  - pose proof (to_end_hold_free i r bl tl None Hf) as Ht. destruct (to_end i r bl tl None) as [[d0 e0] it0]. cbn [snd] in Ht.
    destruct e0; [discriminate|]. intros H; inversion H as [[Hd He Ha]]. apply fin_put in Ha. subst. exact Ht.
  - destruct (bl || Nat.leb (k_n r) k && negb (match k_framing r with FEof => true | _ => false end)).
    + pose proof (to_end_hold_free i r bl tl None Hf) as Ht. destruct (to_end i r bl tl None) as [[d0 e0] it0]. cbn [snd] in Ht.
      destruct e0; [discriminate|]. destruct (read_to_end r bl k); intros H; inversion H as [[Hd He Ha]];
        [apply fin_put in Ha|apply released_put in Ha]; subst; exact Ht.
    + destruct (pull_suffix tl k (k_first r)) as [pre Hp].
      destruct (pull k (k_first r) tl) as [[[ch have] it0] short]. cbn [fst snd] in Hp.
      assert (Hit : hold_free it0) by (rewrite Hp in Hf; exact (hold_free_suffix _ _ Hf)).
      destruct (k_framing r); [destruct short| |destruct short]; try discriminate;
        intros H; inversion H as [[Hd He Ha]]; apply released_put in Ha; subst; exact Hit.
  - destruct (nothing_to_read r bl); intros H; inversion H as [[Hd He Ha]]; [apply fin_put in Ha|apply released_put in Ha]; subst; exact Hf.
  - destruct (rc && negb (nothing_to_read r bl)); [discriminate|]. destruct (k_keep r); [|discriminate].
    intros H; inversion H; subst. exact Hf.
  - pose proof (to_end_hold_free i r bl tl None Hf) as Ht. destruct (to_end i r bl tl None) as [[d0 e0] it0]. cbn [snd] in Ht.
    destruct e0; [discriminate|]. intros H; inversion H as [[Hd He Ha]]. apply fin_put in Ha. subst. exact Ht.
  - discriminate.
  - pose proof (to_end_hold_free i r bl tl (Some (Nat.max a 1)) Hf) as Ht. destruct (to_end i r bl tl (Some (Nat.max a 1))) as [[d0 e0] it0]. cbn [snd] in Ht.
    destruct e0; [discriminate|]. intros H; inversion H as [[Hd He Ha]]. apply fin_put in Ha. subst. exact Ht.
  - destruct bl; [intros H; inversion H as [[Hd He Ha]]; apply fin_put in Ha; subst; exact Hf|].
    destruct (Nat.ltb 0 (k_first r)).
    + destruct (Nat.eqb _ (k_n r)); [|discriminate]. intros H; inversion H as [[Hd He Ha]]. apply fin_put in Ha. subst. exact Hf.
    + destruct (k_n r) as [|n']; [intros H; inversion H as [[Hd He Ha]]; apply fin_put in Ha; subst; exact Hf|].
      destruct tl as [|[t' r'|t' c|t'| |] more]; try discriminate.
      destruct (Nat.eqb _ _); [|discriminate]. intros H; inversion H as [[Hd He Ha]]. apply fin_put in Ha. subst.
      assert (Hm : hold_free more) by (intros Hin; apply Hf; right; exact Hin).
      destruct (k_stray r); try exact Hm. intros [Hx|Hx]; [discriminate|exact (Hm Hx)].
Qed.

(* a reply whose rest is held back: reading it to its end fails ... *)
Lemma pull_late i r more need :
  k_first r <= k_sent r -> k_sent r < need ->
  snd (pull need (k_first r) (cont i r ++ IHold :: more)) = true.
Proof.
  intros Hfs Hn. unfold cont. destruct (Nat.ltb_spec (k_first r) (k_sent r)) as [Hlt|Hge]; cbn [app].
  - rewrite pull_unfold. replace (Nat.leb need (k_first r)) with false by (symmetry; apply Nat.leb_gt; lia).
    replace (k_first r + (k_sent r - k_first r)) with (k_sent r) by lia.
    rewrite pull_unfold. replace (Nat.leb need (k_sent r)) with false by (symmetry; apply Nat.leb_gt; lia). reflexivity.
  - rewrite pull_unfold. replace (Nat.leb need (k_first r)) with false by (symmetry; apply Nat.leb_gt; lia). reflexivity.
Qed.

Lemma to_end_late i r tl amt : late_tail i r tl -> snd (fst (to_end i r false tl amt)) = true.
Proof.
  intros (Hf & Hfs & Hsn & more & ->). unfold to_end.
  pose proof (pull_late i r more (k_n r) Hfs Hsn) as Hp.
  destruct Hf as [Hf|Hf]; rewrite Hf;
    destruct (pull (k_n r) (k_first r) (cont i r ++ IHold :: more)) as [[[ch have] it] short]; cbn [snd] in Hp; subst short;
    destruct amt; reflexivity.
Qed.

(* ... and no way of disposing of it sends the connection back to the pool open *)
Lemma respond_late i r tl c d err a :
  late_tail i r tl -> Wire.respond true i r false tl c = (d, err, a) -> forall it dirty, a <> APut it dirty.
Proof.
  intros Hl. pose proof Hl as (Hf & Hfs & Hsn & more & Htl). unfold Wire.respond, released_unread.
  assert (Hend : forall amt d0 e0 it0, to_end i r false tl amt = (d0, e0, it0) -> e0 = true)
    by (intros amt d0 e0 it0 H; pose proof (to_end_late i r tl amt Hl) as X; rewrite H in X; exact X).
  destruct c as [|k| | | | |a0|k1]; cbn [orb].
  - destruct (to_end i r false tl None) as [[d0 e0] it0] eqn:E. rewrite (Hend _ _ _ _ E). intros H; inversion H; discriminate.
  - destruct (Nat.leb (k_n r) k && negb (match k_framing r with FEof => true | _ => false end)).
    + destruct (to_end i r false tl None) as [[d0 e0] it0] eqn:E. rewrite (Hend _ _ _ _ E). intros H; inversion H; discriminate.
    + destruct (pull k (k_first r) tl) as [[[ch have] it0] short]. destruct Hf as [Hf|Hf]; rewrite Hf; destruct short; intros H; inversion H; discriminate.
  - assert (Hnr : nothing_to_read r false = false)
      by (unfold nothing_to_read; destruct Hf as [Hf|Hf]; rewrite Hf; cbn [orb]; [apply Nat.eqb_neq; lia|reflexivity]).
    rewrite Hnr. intros H; inversion H; discriminate.
  - assert (Hnr : nothing_to_read r false = false)
      by (unfold nothing_to_read; destruct Hf as [Hf|Hf]; rewrite Hf; cbn [orb]; [apply Nat.eqb_neq; lia|reflexivity]).
    rewrite Hnr. cbn [negb andb]. intros H; inversion H; discriminate.
  - destruct (to_end i r false tl None) as [[d0 e0] it0] eqn:E. rewrite (Hend _ _ _ _ E). intros H; inversion H; discriminate.
  - intros H; inversion H; discriminate.
  - destruct (to_end i r false tl (Some (Nat.max a0 1))) as [[d0 e0] it0] eqn:E. rewrite (Hend _ _ _ _ E). intros H; inversion H; discriminate.
  - destruct (Nat.ltb_spec 0 (k_first r)) as [Hpos|Hz].
    + replace (Nat.eqb (Nat.min k1 (Nat.min (k_first r) (k_n r))) (k_n r)) with false by (symmetry; apply Nat.eqb_neq; lia).
      intros H; inversion H; discriminate.
    + destruct (k_n r) as [|n'] eqn:Hn; [lia|]. rewrite Htl. unfold cont.
      destruct (Nat.ltb_spec (k_first r) (k_sent r)) as [Hlt|Hge]; cbn [app].
      * replace (Nat.eqb (Nat.min k1 (Nat.min (k_sent r - k_first r) (S n'))) (S n')) with false by (symmetry; apply Nat.eqb_neq; lia).
        intros H; inversion H; discriminate.
      * intros H; inversion H; discriminate.
Qed.

Lemma apply_after_no_hold M st s a :
  no_hold st -> (forall it dirty, a = APut it dirty -> hold_free it) -> no_hold (apply_after M st s a).
Proof.
  intros Hn Ha. destruct a as [it dirty| |]; cbn [apply_after].
  - apply no_hold_put. unfold set_evs. apply no_hold_cons; [exact Hn|]. exact (Ha it dirty eq_refl).
  - apply no_hold_put, no_hold_close, Hn.
  - apply no_hold_close, Hn.
Qed.

Lemma attempt_no_hold M st2 s d i rq r0 more :
  no_hold st2 -> evs_of (s_evs st2) s = [] -> no_hold (fst (Wire.attempt true M st2 s d i rq r0 more)).
Proof.
  intros Hn Hclean. unfold Wire.attempt.
  set (st3 := mkSt (s_q st2) _ (s_nsid st2) more).
  (* whatever the server wrote, closing the socket removes it *)
  assert (Hfail : no_hold (put M (close_sock st3 s) None)).
  { apply no_hold_put. intros s'. cbn [close_sock s_evs st3]. destruct (Nat.eq_dec s s') as [->|Hne].
    - rewrite evs_of_closed. apply hold_free_nil.
    - rewrite evs_of_filter_other by exact Hne. cbn [evs_of]. destruct (Nat.eqb_spec s s'); [contradiction|exact (Hn s')]. }
  destruct d; [exact Hfail|].
  cbn [s_evs st3]. rewrite evs_head, Hclean. cbn [unhold app].
  destruct (Nat.eq_dec (k_kind r0) 1) as [K1|K1]; [unfold serve; rewrite K1; exact Hfail|].
  destruct (Nat.eq_dec (k_kind r0) 2) as [K2|K2]; [unfold serve; rewrite K2; exact Hfail|].
  destruct (serve_shape i (q_head rq) r0 K1 K2) as (tl & Hserve & Hshape & Hlate). rewrite Hserve. rewrite bodyless_norm.
  (* after the exchange only what the caller's disposal leaves on the socket counts *)
  assert (Hafter : forall a, (forall it dirty, a = APut it dirty -> hold_free it) -> no_hold (apply_after M st3 s a)).
  { intros a Ha. destruct a as [it dirty| |]; cbn [apply_after].
    - apply no_hold_put. intros s'. cbn [set_evs s_evs st3 evs_of]. destruct (Nat.eqb_spec s s'); [exact (Ha it dirty eq_refl)|exact (Hn s')].
    - apply no_hold_put. intros s'. cbn [close_sock s_evs st3]. destruct (Nat.eq_dec s s') as [->|Hne].
      + rewrite evs_of_closed. apply hold_free_nil.
      + rewrite evs_of_filter_other by exact Hne. cbn [evs_of]. destruct (Nat.eqb_spec s s'); [contradiction|exact (Hn s')].
    - intros s'. cbn [close_sock s_evs st3]. destruct (Nat.eq_dec s s') as [->|Hne].
      + rewrite evs_of_closed. apply hold_free_nil.
      + rewrite evs_of_filter_other by exact Hne. cbn [evs_of]. destruct (Nat.eqb_spec s s'); [contradiction|exact (Hn s')]. }
  destruct (classic_in_hold tl) as [Hin|Hfree].
  - (* the rest of this reply is held back *)
    destruct (Hlate Hin) as [Hb Hl]. rewrite Hb.
    destruct (q_preload rq).
    + pose proof (to_end_late i (norm (q_head rq) r0) tl None Hl) as He.
      destruct (to_end _ _ _ _ _) as [[d0 err] it]. cbn [fst snd] in He. subst err. exact Hfail.
    + destruct (Wire.respond true i (norm (q_head rq) r0) false tl (q_caller rq)) as [[d0 err] a] eqn:Er. cbn [fst].
      apply Hafter. intros it dirty Ha. exfalso. exact (respond_late _ _ _ _ _ _ _ Hl Er it dirty Ha).
  - destruct (q_preload rq).
    + pose proof (to_end_hold_free i (norm (q_head rq) r0) (bodyless (q_head rq) r0) tl None Hfree) as Ht.
      destruct (to_end _ _ _ _ _) as [[d0 err] it]. cbn [snd] in Ht. destruct err; [exact Hfail|]. cbn [fst].
      apply Hafter. intros it' dirty Ha. apply fin_put in Ha. subst. exact Ht.
    + destruct (Wire.respond true i (norm (q_head rq) r0) (bodyless (q_head rq) r0) tl (q_caller rq)) as [[d0 err] a] eqn:Er. cbn [fst].
      apply Hafter. intros it dirty Ha. subst a. exact (respond_hold_free _ _ _ _ _ _ _ _ _ _ Hfree Er).
Qed.

(* one urlopen call: its result is the request's own, the script shrinks, nothing is held back afterwards *)
Theorem urlopen_own fuel : forall M st i rq last, no_hold st ->
  result_ok (s_script st) i rq (snd (Wire.urlopen true fuel M st i rq last)) /\
  no_hold (fst (Wire.urlopen true fuel M st i rq last)) /\
  exists used, s_script st = used ++ s_script (fst (Wire.urlopen true fuel M st i rq last)).
Proof.
  induction fuel as [|fuel IH]; intros M st i rq last Hn; cbn [Wire.urlopen].
  all: destruct (acquire st) as [[st2 s] d] eqn:Ha; apply (acquire_clean st st2 s d Hn) in Ha as (Hclean & Hscr & Hn2); rewrite <- Hscr.
  all: destruct (s_script st2) as [|r0 more] eqn:Hs2;
    [cbn [snd fst r_delivered]; split; [split; [constructor|left; reflexivity]|]; split; [exact Hn2|exists []; symmetry; exact Hs2]|].
  all: pose proof (attempt_script true M st2 s d i rq r0 more) as Hs.
  all: pose proof (attempt_no_hold M st2 s d i rq r0 more Hn2 Hclean) as Hn4.
  all: destruct (Wire.attempt true M st2 s d i rq r0 more) as [st4 [res|]] eqn:Hat; cbn [fst snd] in *.
  all: try (split; [eapply attempt_own; [exact Hclean|exact Hat]|]; split; [exact Hn4|exists [r0]; cbn [app]; rewrite Hs; reflexivity]).
  - split; [split; [constructor|left; reflexivity]|]. split; [exact Hn4|exists [r0]; cbn [app]; rewrite Hs; reflexivity].
  - destruct (IH M st4 i rq (Some s) Hn4) as (Hok & Hn5 & used & Hu). rewrite Hs in Hok, Hu.
    split; [apply result_ok_more; exact Hok|]. split; [exact Hn5|]. exists (r0 :: used). cbn [app]. rewrite <- Hu. reflexivity.
Qed.

Theorem history_own fuel M : forall reqs st i, no_hold st -> all_ok (s_script st) i reqs (Wire.run_history true fuel M st i reqs).
Proof.
  induction reqs as [|rq reqs IH]; intros st i Hn; cbn [Wire.run_history all_ok]; [exact I|].
  destruct (urlopen_own fuel M st i rq None Hn) as (Hok & Hn1 & used & Hu).
  destruct (Wire.urlopen true fuel M st i rq None) as [st1 res]; cbn [snd fst] in *.
  cbn [all_ok]. split; [exact Hok|].
  destruct (r_outcome res); try (rewrite Hu; apply all_ok_app; apply IH; exact Hn1).
  destruct reqs; exact I.
Qed.

Lemma init_no_hold M script : no_hold (init M script).
Proof. intros s. cbn. apply hold_free_nil. Qed.

(* with release_conn() closing what was not read to its end (rc = true): a response released unread or after a partial
   read(k) never sends its connection back to the pool open - unless there was nothing to read *)
Theorem released_unread_is_closed t r bl rest c d err it dirty :
  Wire.respond true t r bl rest c = (d, err, APut it dirty) ->
  match c with
  | CRelease | CKeep => nothing_to_read r bl = true
  | CReadK k => read_to_end r bl k = true
  | _ => True
  end.
Proof.
  unfold Wire.respond, released_unread. destruct c as [|k| | | | |a|k1]; try (intros; exact I).
  - destruct (bl || Nat.leb (k_n r) k && negb (match k_framing r with FEof => true | _ => false end)) eqn:E.
    + destruct (to_end t r bl rest None) as [[d0 e0] it0]. destruct e0; [discriminate|]. destruct (read_to_end r bl k); [reflexivity|discriminate].
    + destruct (pull k (k_first r) rest) as [[[ch have] it0] short]. destruct (k_framing r); [|discriminate|]; destruct short; discriminate.
  - destruct (nothing_to_read r bl); [reflexivity|discriminate].
  - cbn [andb]. destruct (nothing_to_read r bl); [reflexivity|discriminate].
Qed.
