(* Proofs for C03 (model/Wire.v). *)
From Coq Require Import List Arith Bool Lia.
From V Require Import model.Wire.
Import ListNotations.

(* all delivered runs carry tag i, and they add up to at most `bound` bytes *)
Fixpoint total (ch : list (nat * nat)) : nat := match ch with [] => 0 | (_, c) :: r => c + total r end.
Definition own (i : nat) (ch : list (nat * nat)) : Prop := Forall (fun tc => fst tc = i) ch.

Lemma take_bytes_own i k ch : own i ch -> own i (take_bytes k ch).
Proof.
  revert k; induction ch as [|[t c] r IH]; intros k H; cbn [take_bytes]; [constructor|].
  apply Forall_cons_iff in H as [Ht Hr]. destruct (Nat.leb k c).
  - constructor; [exact Ht | constructor].
  - constructor; [exact Ht | apply IH; exact Hr].
Qed.

Lemma take_bytes_total k ch : total (take_bytes k ch) <= k /\ total (take_bytes k ch) <= total ch.
Proof.
  revert k; induction ch as [|[t c] r IH]; intros k; cbn [take_bytes total]; [lia|].
  destruct (Nat.leb_spec k c); cbn [total].
  - lia.
  - specialize (IH (k - c)). lia.
Qed.

(* ---------- checkout hands out only sockets with nothing pending ---------- *)
Lemma evs_of_filter_other evs s s' :
  s <> s' -> evs_of (filter (fun kv => negb (Nat.eqb (fst kv) s)) evs) s' = evs_of evs s'.
Proof.
  intros Hne; induction evs as [|[k v] r IH]; cbn [filter evs_of fst]; [reflexivity|].
  destruct (Nat.eqb_spec k s) as [->|Hk]; cbn [negb].
  - destruct (Nat.eqb_spec s s'); [contradiction|exact IH].
  - cbn [evs_of]. rewrite IH. reflexivity.
Qed.

Theorem checkout_clean st st1 s d :
  checkout st = (st1, Some (s, d)) -> evs_of (s_evs st1) s = [].
Proof.
  unfold checkout. destruct (s_q st) as [|[[s0 d0]|] q]; try discriminate.
  destruct (evs_of (s_evs st) s0) eqn:He; [|discriminate].
  intros H; inversion H; subst. cbn. exact He.
Qed.

Lemma evs_of_closed evs s : evs_of (filter (fun kv => negb (Nat.eqb (fst kv) s)) evs) s = [].
Proof.
  induction evs as [|[k v] r IH]; cbn [filter evs_of fst]; [reflexivity|].
  destruct (Nat.eqb_spec k s) as [->|Hk]; cbn [negb]; [exact IH|].
  cbn [evs_of]. destruct (Nat.eqb_spec k s); [contradiction|exact IH].
Qed.

Theorem pending_is_discarded st s d q x xs :
  s_q st = Some (s, d) :: q -> evs_of (s_evs st) s = x :: xs ->
  exists st1, checkout st = (st1, None) /\ evs_of (s_evs st1) s = [] /\ s_q st1 = q.
Proof.
  intros Hq He. unfold checkout. rewrite Hq, He. eexists; split; [reflexivity|]. split; [|reflexivity].
  cbn. apply evs_of_closed.
Qed.

(* ---------- readers on a served stream deliver own bytes only ---------- *)
Lemma pull_unfold need have items :
  pull need have items =
  if Nat.leb need have then ([], have, items, false) else
  match items with
  | [] => ([], have, [], true)
  | IEof :: _ => ([], have, items, true)
  | IData t c :: more =>
      let '(ch, h, it, e) := pull need (have + c) more in ((t, Nat.min c (need - have)) :: ch, h, it, e)
  | IResp t _ :: more => let '(ch, h, it, e) := pull need (have + 1) more in ((t, 1) :: ch, h, it, e)
  | IJunk t :: more => let '(ch, h, it, e) := pull need (have + 1) more in ((t, 1) :: ch, h, it, e)
  end.
Proof. destruct items as [|[| | |] ?]; reflexivity. Qed.

(* what follows the head of a reply to request i: the rest of what was sent of its body ... *)
Definition cont (i : nat) (r : reply) : list item :=
  if Nat.ltb (k_first r) (k_sent r) then [IData i (k_sent r - k_first r)] else [].
Definition eof_first (rest : list item) : Prop := exists rest', rest = IEof :: rest'.

Lemma pull_own i r need rest :
  k_first r <= k_sent r ->
  (need <= k_sent r \/ eof_first rest) ->
  own i (fst (fst (fst (pull need (k_first r) (cont i r ++ rest))))) /\
  k_first r + total (fst (fst (fst (pull need (k_first r) (cont i r ++ rest))))) <= k_sent r.
Proof.
  intros Hfs Hor. unfold cont. destruct (Nat.ltb_spec (k_first r) (k_sent r)) as [Hlt|Hge]; cbn [app].
  - rewrite pull_unfold. destruct (Nat.leb_spec need (k_first r)); cbn [fst total]; [split; [constructor|lia]|].
    replace (k_first r + (k_sent r - k_first r)) with (k_sent r) by lia.
    rewrite pull_unfold. destruct (Nat.leb_spec need (k_sent r)) as [Hle|Hgt]; cbn [fst total].
    + split; [constructor; [reflexivity|constructor]|lia].
    + destruct Hor as [Hc|[rest' ->]]; [lia|]. cbn [fst total]. split; [constructor; [reflexivity|constructor]|lia].
  - rewrite pull_unfold. destruct (Nat.leb_spec need (k_first r)); cbn [fst total]; [split; [constructor|lia]|].
    destruct Hor as [Hc|[rest' ->]]; [lia|]. cbn [fst total]. split; [constructor|lia].
Qed.

Lemma pull_eof_own i r rest' :
  k_first r <= k_sent r ->
  own i (fst (pull_eof (cont i r ++ IEof :: rest'))) /\
  k_first r + total (fst (pull_eof (cont i r ++ IEof :: rest'))) <= k_sent r.
Proof.
  intros Hfs. unfold cont. destruct (Nat.ltb_spec (k_first r) (k_sent r)); cbn [app pull_eof fst total].
  - split; [constructor; [reflexivity|constructor]|lia].
  - split; [constructor|lia].
Qed.

Definition served_tail (i : nat) (r : reply) (tl : list item) : Prop :=
  exists rest, tl = cont i r ++ rest /\ k_first r <= k_sent r /\ k_sent r <= k_n r /\
               (k_sent r < k_n r \/ k_framing r = FEof -> eof_first rest).

Definition bounded (i : nat) (r : reply) (d : list (nat * nat)) : Prop := own i d /\ total d <= k_sent r.

Lemma own_cons i c ch : own i ch -> own i ((i, c) :: ch).
Proof. intros H; constructor; [reflexivity|exact H]. Qed.

Lemma take_bounded i r k all : own i all -> total all <= k_sent r -> bounded i r (take_bytes k all).
Proof. intros Ho Ht; split; [apply take_bytes_own; exact Ho|]. pose proof (take_bytes_total k all). lia. Qed.

Lemma nil_bounded i r : bounded i r [].
Proof. split; [constructor|cbn; lia]. Qed.

Lemma to_end_own i r bl tl amt :
  (bl = false -> served_tail i r tl) -> bounded i r (fst (fst (to_end i r bl tl amt))).
Proof.
  intros Hs. unfold to_end. destruct bl; [apply nil_bounded|].
  destruct (Hs eq_refl) as (rest & -> & Hfs & Hsn & Heof).
  destruct (k_framing r) eqn:Hf.
  - (* FLen *)
    assert (Hor : k_n r <= k_sent r \/ eof_first rest) by (destruct (Nat.ltb_spec (k_sent r) (k_n r)); [right; apply Heof; left; assumption|left; assumption]).
    pose proof (pull_own i r (k_n r) rest Hfs Hor) as [Ho Ht].
    destruct (pull (k_n r) (k_first r) (cont i r ++ rest)) as [[[ch have] it] short]; cbn [fst] in *.
    assert (Hall : own i ((i, k_first r) :: ch)) by (apply own_cons; exact Ho).
    assert (Htot : total ((i, k_first r) :: ch) <= k_sent r) by (cbn [total]; lia).
    destruct short; [|cbn [fst]; split; assumption].
    destruct amt; cbn [fst]; [apply take_bounded; assumption|apply nil_bounded].
  - (* FEof *)
    destruct (Heof (or_intror eq_refl)) as [rest' ->].
    pose proof (pull_eof_own i r rest' Hfs) as [Ho Ht].
    destruct (pull_eof (cont i r ++ IEof :: rest')) as [ch it]; cbn [fst] in *.
    split; [apply own_cons; exact Ho|cbn [total]; lia].
  - (* FChunked *)
    assert (Hor : k_n r <= k_sent r \/ eof_first rest) by (destruct (Nat.ltb_spec (k_sent r) (k_n r)); [right; apply Heof; left; assumption|left; assumption]).
    pose proof (pull_own i r (k_n r) rest Hfs Hor) as [Ho Ht].
    destruct (pull (k_n r) (k_first r) (cont i r ++ rest)) as [[[ch have] it] short]; cbn [fst] in *.
    assert (Hall : own i ((i, k_first r) :: ch)) by (apply own_cons; exact Ho).
    assert (Htot : total ((i, k_first r) :: ch) <= k_sent r) by (cbn [total]; lia).
    destruct short; [|cbn [fst]; split; assumption].
    destruct amt; cbn [fst]; [apply take_bounded; assumption|apply nil_bounded].
Qed.

Section Release.
Variable rc : bool.
Local Notation respond := (Wire.respond rc).
Local Notation attempt := (Wire.attempt rc).
Local Notation urlopen := (Wire.urlopen rc).
Local Notation run_history := (Wire.run_history rc).

Lemma respond_own i r bl tl c :
  (bl = false -> served_tail i r tl) -> bounded i r (fst (fst (respond i r bl tl c))).
Proof.
  intros Hs. unfold Wire.respond. destruct c as [|k| | | | |a|k1].
  - pose proof (to_end_own i r bl tl None Hs). destruct (to_end i r bl tl None) as [[d err] it]; exact H.
  - destruct (bl || Nat.leb (k_n r) k && negb (match k_framing r with FEof => true | _ => false end)) eqn:Hc.
    + pose proof (to_end_own i r bl tl None Hs). destruct (to_end i r bl tl None) as [[d err] it]; exact H.
    + apply orb_false_iff in Hc as [-> Hc]. destruct (Hs eq_refl) as (rest & -> & Hfs & Hsn & Heof).
      assert (Hor : k <= k_sent r \/ eof_first rest).
      { destruct (k_framing r) eqn:Hf; cbn [negb] in Hc.
        - rewrite andb_true_r in Hc. apply Nat.leb_gt in Hc.
          destruct (Nat.ltb_spec (k_sent r) (k_n r)); [right; apply Heof; left; assumption|left; lia].
        - right; apply Heof; right; reflexivity.
        - rewrite andb_true_r in Hc. apply Nat.leb_gt in Hc.
          destruct (Nat.ltb_spec (k_sent r) (k_n r)); [right; apply Heof; left; assumption|left; lia]. }
      pose proof (pull_own i r k rest Hfs Hor) as [Ho Ht].
      destruct (pull k (k_first r) (cont i r ++ rest)) as [[[ch have] it] short]; cbn [fst] in *.
      assert (Hall : own i ((i, k_first r) :: ch)) by (apply own_cons; exact Ho).
      assert (Htot : total ((i, k_first r) :: ch) <= k_sent r) by (cbn [total]; lia).
      destruct (k_framing r); [destruct short| |destruct short]; cbn [fst];
        try apply nil_bounded; apply take_bounded; assumption.
  - apply nil_bounded.
  - apply nil_bounded.
  - destruct (to_end i r bl tl None) as [[d err] it]; apply nil_bounded.
  - apply nil_bounded.
  - pose proof (to_end_own i r bl tl (Some (Nat.max a 1)) Hs).
    destruct (to_end i r bl tl (Some (Nat.max a 1))) as [[d err] it]; exact H.
  - destruct bl; [apply nil_bounded|]. destruct (Hs eq_refl) as (rest & -> & Hfs & Hsn & Heof).
    destruct (Nat.ltb_spec 0 (k_first r)) as [Hpos|Hz]; cbn [fst].
    + split; [constructor; [reflexivity|constructor]|cbn [total]; lia].
    + assert (Hf0 : k_first r = 0) by lia. unfold cont. rewrite Hf0.
      destruct (k_n r) as [|n'] eqn:Hn; [apply nil_bounded|].
      destruct (Nat.ltb_spec 0 (k_sent r)) as [Hs1|Hs0]; cbn [app fst].
      * split; [constructor; [reflexivity|constructor]|cbn [total]; lia].
      * assert (He : eof_first rest) by (apply Heof; left; lia). destruct He as [rest' ->]. cbn [fst]. apply nil_bounded.
Qed.

(* ---------- what the server writes ---------- *)
Lemma bodyless_norm head r0 : bodyless head (norm head r0) = bodyless head r0.
Proof.
  unfold norm. destruct (bodyless head r0) eqn:Hb; [exact Hb|].
  destruct (k_framing r0); unfold bodyless in *; cbn [k_status]; exact Hb.
Qed.

Lemma serve_shape i head r0 :
  k_kind r0 <> 1 -> k_kind r0 <> 2 ->
  exists tl, serve i head r0 = IResp i (norm head r0) :: tl /\
             (bodyless head r0 = false -> served_tail i (norm head r0) tl).
Proof.
  intros H1 H2. unfold serve.
  destruct (k_kind r0) as [|[|[|k]]] eqn:Hk; try contradiction; cbn [app].
  all: eexists; split; [reflexivity|]; intros Hb; unfold served_tail, cont.
  all: eexists; split; [reflexivity|].
  all: unfold norm; rewrite Hb; cbn [orb].
  all: destruct (k_framing r0) eqn:Hf; cbn [k_first k_sent k_n k_framing k_keep k_stray k_eof_after].
  all: split; [lia|]; split; [lia|].
  all: intros Hor.
  all: try (destruct Hor as [Hlt|Hfe]; [|discriminate]).
  all: try (destruct (Nat.eqb_spec (Nat.min (k_sent r0) (k_n r0)) (k_n r0)) as [He|He]; [lia|];
            cbn [app negb orb]; rewrite orb_true_r; cbn [orb]; eexists; reflexivity).
  all: try (rewrite Nat.eqb_refl; cbn [app negb orb]; eexists; reflexivity).
Qed.

(* ---------- urlopen ---------- *)
Definition result_ok (script : list reply) (i : nat) (rq : request) (res : result) : Prop :=
  own i (r_delivered res) /\
  (r_delivered res = [] \/
   exists r0, In r0 script /\ k_kind r0 <> 1 /\ k_kind r0 <> 2 /\
              total (r_delivered res) <= k_sent (norm (q_head rq) r0) /\
              k_sent (norm (q_head rq) r0) <= k_n (norm (q_head rq) r0)).

Lemma evs_head s v evs : evs_of ((s, v) :: evs) s = v.
Proof. cbn [evs_of]. rewrite Nat.eqb_refl. reflexivity. Qed.

Lemma result_ok_more r0 more i rq res : result_ok more i rq res -> result_ok (r0 :: more) i rq res.
Proof.
  intros [Ho [Hn|(r & Hin & H)]]; split; try exact Ho; [left; exact Hn|right; exists r; split; [right; exact Hin|exact H]].
Qed.

Lemma put_script M st slot : s_script (put M st slot) = s_script st.
Proof. unfold put. destruct (Nat.ltb _ _); [reflexivity|]. destruct slot as [[s d]|]; reflexivity. Qed.


Lemma acquire_clean st st2 s d :
  acquire st = (st2, s, d) -> evs_of (s_evs st2) s = [] /\ s_script st2 = s_script st.
Proof.
  unfold acquire. destruct (checkout st) as [st1 slot] eqn:Hco.
  assert (Hscr1 : s_script st1 = s_script st)
    by (unfold checkout in Hco; destruct (s_q st) as [|[[s0 d0]|] q]; [inversion Hco; reflexivity|
        destruct (evs_of (s_evs st) s0); inversion Hco; reflexivity|inversion Hco; reflexivity]).
  destruct slot as [[s0 d0]|].
  - intros H; inversion H; subst. split; [eapply checkout_clean; exact Hco|exact Hscr1].
  - cbn [open_sock]. intros H; inversion H; subst. cbn [s_evs s_script]. split; [apply evs_head|exact Hscr1].
Qed.

Lemma apply_after_script M st s a : s_script (apply_after M st s a) = s_script st.
Proof. destruct a; cbn [apply_after]; rewrite ?put_script; reflexivity. Qed.

Lemma attempt_script M st2 s d i rq r0 more : s_script (fst (attempt M st2 s d i rq r0 more)) = more.
Proof.
  unfold Wire.attempt. destruct d; [cbn [fst]; rewrite put_script; reflexivity|].
  match goal with |- context[match ?e with _ => _ end] => destruct e as [|[t r| | |] rest] end;
    try (cbn [fst]; rewrite put_script; reflexivity).
  destruct (q_preload rq).
  - destruct (to_end _ _ _ _ _) as [[d0 err] it]. destruct err; cbn [fst]; [rewrite put_script|rewrite apply_after_script]; reflexivity.
  - destruct (respond _ _ _ _ _) as [[d0 err] a]. cbn [fst]. rewrite apply_after_script. reflexivity.
Qed.

Lemma attempt_own M st2 s d i rq r0 more st4 res :
  evs_of (s_evs st2) s = [] ->
  attempt M st2 s d i rq r0 more = (st4, Some res) -> result_ok (r0 :: more) i rq res.
Proof.
  intros Hclean. unfold Wire.attempt. destruct d; [discriminate|].
  cbn [s_evs]. rewrite evs_head, Hclean. cbn [app].
  destruct (Nat.eq_dec (k_kind r0) 1) as [K1|K1]; [unfold serve; rewrite K1; discriminate|].
  destruct (Nat.eq_dec (k_kind r0) 2) as [K2|K2]; [unfold serve; rewrite K2; discriminate|].
  destruct (serve_shape i (q_head rq) r0 K1 K2) as (tl & -> & Hshape).
  rewrite bodyless_norm.
  assert (Hsn : bodyless (q_head rq) r0 = false -> k_sent (norm (q_head rq) r0) <= k_n (norm (q_head rq) r0))
    by (intros Hb; destruct (Hshape Hb) as (? & _ & _ & H & _); exact H).
  assert (Hfin : forall d0, bounded i (norm (q_head rq) r0) d0 -> forall e st', result_ok (r0 :: more) i rq (mkRes OResp (k_status (norm (q_head rq) r0)) d0 e (Some s) st')).
  { intros d0 [Ho Ht] e st'. split; [exact Ho|]. cbn [r_delivered].
    destruct (bodyless (q_head rq) r0) eqn:Hb.
    - destruct d0 as [|[t c] d0]; [left; reflexivity|]. right. exists r0. split; [left; reflexivity|]. repeat split; try assumption.
      unfold norm in *. rewrite Hb in *. cbn [k_sent k_n] in *. lia.
    - right. exists r0. split; [left; reflexivity|]. repeat split; try assumption. apply Hsn; reflexivity. }
  destruct (q_preload rq).
  - pose proof (to_end_own i (norm (q_head rq) r0) (bodyless (q_head rq) r0) tl None Hshape) as Hb.
    destruct (to_end _ _ _ _ _) as [[d0 err] it]. cbn [fst] in Hb. destruct err; [discriminate|].
    intros H; inversion H; subst. apply Hfin; exact Hb.
  - pose proof (respond_own i (norm (q_head rq) r0) (bodyless (q_head rq) r0) tl (q_caller rq) Hshape) as Hb.
    destruct (respond _ _ _ _ _) as [[d0 err] a]. cbn [fst] in Hb.
    intros H; inversion H; subst. apply Hfin; exact Hb.
Qed.

Theorem urlopen_own fuel : forall M st i rq last,
  result_ok (s_script st) i rq (snd (urlopen fuel M st i rq last)).
Proof.
  induction fuel as [|fuel IH]; intros M st i rq last; cbn [urlopen].
  all: destruct (acquire st) as [[st2 s] d] eqn:Ha; apply acquire_clean in Ha as [Hclean Hscr]; rewrite <- Hscr.
  all: destruct (s_script st2) as [|r0 more]; [cbn [snd r_delivered]; split; [constructor|left; reflexivity]|].
  all: destruct (attempt M st2 s d i rq r0 more) as [st4 [res|]] eqn:Hat.
  all: try (cbn [snd]; eapply attempt_own; [exact Hclean|exact Hat]).
  - cbn [snd]. split; [constructor|left; reflexivity].
  - apply result_ok_more. pose proof (attempt_script M st2 s d i rq r0 more) as Hs. rewrite Hat in Hs. cbn [fst] in Hs.
    rewrite <- Hs. apply IH.
Qed.

(* every request of a history *)
Fixpoint all_ok (script : list reply) (i : nat) (reqs : list request) (rs : list result) : Prop :=
  match reqs, rs with
  | rq :: reqs', r :: rs' => result_ok script i rq r /\ all_ok script (S i) reqs' rs'
  | _, [] => True
  | [], _ :: _ => False
  end.

Lemma urlopen_script_suffix fuel : forall M st i rq last,
  exists used, s_script st = used ++ s_script (fst (urlopen fuel M st i rq last)).
Proof.
  induction fuel as [|fuel IH]; intros M st i rq last; cbn [urlopen].
  all: destruct (acquire st) as [[st2 s] d] eqn:Ha; apply acquire_clean in Ha as [Hclean Hscr]; rewrite <- Hscr.
  all: destruct (s_script st2) as [|r0 more] eqn:Hs2; [exists []; cbn [fst app]; symmetry; exact Hs2|].
  all: pose proof (attempt_script M st2 s d i rq r0 more) as Hs.
  all: destruct (attempt M st2 s d i rq r0 more) as [st4 [res|]]; cbn [fst] in *.
  all: try (exists [r0]; cbn [app]; rewrite Hs; reflexivity).
  destruct (IH M st4 i rq (Some s)) as [used Hu]. exists (r0 :: used). cbn [app]. rewrite <- Hu, Hs. reflexivity.
Qed.

Lemma result_ok_app used script i rq res : result_ok script i rq res -> result_ok (used ++ script) i rq res.
Proof. induction used as [|u used IH]; intros H; [exact H|]. cbn [app]. apply result_ok_more, IH, H. Qed.

Lemma all_ok_app used : forall script i reqs rs, all_ok script i reqs rs -> all_ok (used ++ script) i reqs rs.
Proof.
  intros script i reqs rs; revert i reqs. induction rs as [|r rs IH]; intros i reqs H; destruct reqs as [|rq reqs]; cbn [all_ok] in *; try exact H.
  destruct H as [H1 H2]. split; [apply result_ok_app; exact H1|apply IH; exact H2].
Qed.

Theorem history_own fuel M : forall reqs st i, all_ok (s_script st) i reqs (run_history fuel M st i reqs).
Proof.
  induction reqs as [|rq reqs IH]; intros st i; cbn [run_history all_ok]; [exact I|].
  pose proof (urlopen_own fuel M st i rq None) as Hok.
  destruct (urlopen_script_suffix fuel M st i rq None) as [used Hu].
  destruct (urlopen fuel M st i rq None) as [st1 res]; cbn [snd fst] in *.
  cbn [all_ok]. split; [exact Hok|].
  destruct (r_outcome res); try (rewrite Hu; apply all_ok_app; apply IH).
  destruct reqs; exact I.
Qed.

(* ---------- connections that are not clean never yield a response ---------- *)
Theorem dirty_never_yields M st2 s i rq r0 more :
  exists st4, attempt M st2 s true i rq r0 more = (st4, None) /\ evs_of (s_evs st4) s = [].
Proof.
  unfold Wire.attempt. eexists; split; [reflexivity|].
  unfold put. destruct (Nat.ltb _ _); cbn [set_q close_sock s_evs s_q]; apply evs_of_closed.
Qed.

Lemma failed_closes M st3 s : evs_of (s_evs (put M (close_sock st3 s) None)) s = [].
Proof. unfold put. destruct (Nat.ltb _ _); cbn [set_q close_sock s_evs s_q]; apply evs_of_closed. Qed.

(* after a failed attempt the retry runs on a socket opened for it *)
Theorem retry_on_fresh_socket M st2 s d i rq r0 more st4 :
  length (s_q st2) < M ->
  attempt M st2 s d i rq r0 more = (st4, None) ->
  acquire st4 = (fst (open_sock (set_q st4 (s_q st2))), s_nsid st4, false) /\ s_nsid st4 = s_nsid st2.
Proof.
  intros Hlen. unfold Wire.attempt.
  set (st3 := mkSt (s_q st2) _ (s_nsid st2) more).
  assert (Hf : forall st4, (put M (close_sock st3 s) None, @None result) = (st4, None) ->
               acquire st4 = (fst (open_sock (set_q st4 (s_q st2))), s_nsid st4, false) /\ s_nsid st4 = s_nsid st2).
  { intros st4' H; inversion H; subst st4'. unfold put. cbn [close_sock s_q st3].
    apply Nat.ltb_lt in Hlen. rewrite Hlen. unfold acquire, checkout. cbn [set_q s_q s_evs s_nsid s_script open_sock fst]. split; reflexivity. }
  destruct d; [apply Hf|].
  match goal with |- context[match ?e with _ => _ end] => destruct e as [|[t r| | |] rest] end; try apply Hf.
  destruct (q_preload rq).
  - destruct (to_end _ _ _ _ _) as [[d0 err] it]. destruct err; [apply Hf|discriminate].
  - destruct (respond _ _ _ _ _) as [[d0 err] a]. discriminate.
Qed.
End Release.

(* with release_conn() closing what was not read to its end (rc = true): a response released unread or after a partial
   read(k) never sends its connection back to the pool open - unless there was nothing to read *)
Theorem released_unread_is_closed t r bl rest c d err it dirty :
  Wire.respond true t r bl rest c = (d, err, APut it dirty) ->
  match c with
  | CRelease | CKeep => nothing_to_read r bl = true
  | CReadK k => read_to_end r bl k = true
  | _ => True
  end.
Proof.
  unfold Wire.respond, released_unread. destruct c as [|k| | | | |a|k1]; try (intros; exact I).
  - destruct (bl || Nat.leb (k_n r) k && negb (match k_framing r with FEof => true | _ => false end)) eqn:E.
    + destruct (to_end t r bl rest None) as [[d0 e0] it0]. destruct e0; [discriminate|]. destruct (read_to_end r bl k); [reflexivity|discriminate].
    + destruct (pull k (k_first r) rest) as [[[ch have] it0] short]. destruct (k_framing r); [|discriminate|]; destruct short; discriminate.
  - destruct (nothing_to_read r bl); [reflexivity|discriminate].
  - cbn [andb]. destruct (nothing_to_read r bl); [reflexivity|discriminate].
Qed.
