From Coq Require Import List NArith Bool Arith Lia Permutation.
From V Require Import model.Lru proofs.Lru_proofs.
Import ListNotations.

(* a value that is still cached has not been disposed (when stored values are distinct) *)
Theorem cached_not_disposed m ops v :
  NoDup (all_stored m ops []) ->
  let '(c', _, ds) := run m ops [] in In v (vals c') -> ~ In v ds.
Proof.
  intros Hnd. pose proof (dispose_conservation m ops []) as P.
  destruct (run m ops []) as [[c' xs] ds]. simpl in P. rewrite app_nil_r in P.
  intros Hin Hd.
  assert (N : NoDup (vals c' ++ ds)) by (eapply Permutation_NoDup; eauto).
  revert N Hin Hd. generalize (vals c') as l. induction l as [|a l IH]; simpl; intros N Hin Hd; [tauto|].
  inversion N; subst. destruct Hin as [->|Hin].
  - apply H1. apply in_app_iff. auto.
  - apply IH; assumption.
Qed.

(* equal keys obtain the same cached value as long as it has not been disposed *)
Theorem same_key_same_value m k v f ops c :
  Inv m c -> c_find k c = Some v ->
  let '(c', _, ds) := run m ops c in
  ~ In v ds -> snd (fst (step m c' (GetOrCreate k f))) = RVal v.
Proof.
  intros HI F. pose proof (run_persist m k v ops c HI F) as P.
  destruct (run m ops c) as [[c' xs] ds]. intros Hnd.
  destruct P as [P|P]; [|contradiction]. apply get_or_create_hit. assumption.
Qed.

Lemma Inv_empty m : Inv m [].
Proof. split; [constructor | simpl; lia]. Qed.
