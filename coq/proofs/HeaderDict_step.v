(* C16: store-level refinement, observation lemmas, independence. *)
From Coq Require Import String List NArith Bool Lia.
From V Require Import lib.PyStr model.HeaderDict model.HeaderSpec
  proofs.HeaderDict_inv proofs.HeaderDict_refine.
Import ListNotations.

Section Step.
Variable lower : str -> str.
Notation Inv := (Inv lower).
Notation SInv := (SInv lower).
Notation abs := (abs).

Lemma map_set_obj st o d : map abs (set_obj st o d) = set_nth (map abs st) o (abs d).
Proof.
  revert o. induction st as [|x st IH]; intros [|o]; simpl; try reflexivity.
  rewrite IH. reflexivity.
Qed.

Lemma nth_map_abs st o : nth o (map abs st) [] = abs (get_obj st o).
Proof. unfold get_obj. change (@nil line) with (abs []). apply map_nth. Qed.

Lemma add_all_abs l d : Inv d -> abs (add_all lower l d) = sp_add_all lower l (abs d).
Proof.
  unfold add_all, sp_add_all. revert d. induction l as [|kv l IH]; simpl; intros d H; [reflexivity|].
  rewrite IH by (apply Inv_add; assumption). rewrite add_abs by assumption. reflexivity.
Qed.

Lemma set_all_abs l d : Inv d -> abs (set_all lower l d) = sp_set_all lower l (abs d).
Proof.
  unfold set_all, sp_set_all. revert d. induction l as [|kv l IH]; simpl; intros d H; [reflexivity|].
  rewrite IH by (apply Inv_setitem; assumption). rewrite setitem_abs by assumption. reflexivity.
Qed.

Lemma sp_merged_abs d : Inv d -> merged_of d = sp_merged lower (abs d).
Proof. apply merged_abs. Qed.

Lemma extend_abs st s d :
  SInv st -> Inv d ->
  extend lower st s d = Some (add_all lower
    (match s with SrcPairs l => l | SrcDict l => dict_of_pairs l | SrcHD o => abs (get_obj st o) end) d).
Proof.
  intros Hs Hd. destruct s as [l|l|o]; simpl; try reflexivity.
  rewrite iteritems_abs by (apply SInv_get; assumption). reflexivity.
Qed.

Lemma extend_abs' st s d d' :
  SInv st -> Inv d -> extend lower st s d = Some d' ->
  abs d' = sp_add_all lower (sp_src_lines (map abs st) s) (abs d).
Proof.
  intros Hs Hd. rewrite extend_abs by assumption. intros [= <-].
  rewrite add_all_abs by assumption. destruct s; simpl; try reflexivity.
  rewrite nth_map_abs. reflexivity.
Qed.

Lemma extend_total st s d : SInv st -> Inv d -> extend lower st s d <> None.
Proof. intros Hs Hd. rewrite extend_abs by assumption. discriminate. Qed.

Lemma update_fold_merged other ns d :
  Inv other -> (forall n, In n ns -> exists e, In e other /\ e_name e = n) ->
  fold_left (fun acc n =>
        match acc, getitem lower n other with
        | Some d', Some v => Some (setitem lower n v d')
        | _, _ => None
        end) ns (Some d) =
  Some (set_all lower (map (fun n => (n, match getitem lower n other with Some v => v | None => [] end)) ns) d).
Proof.
  intros Ho. revert d. induction ns as [|n ns IH]; simpl; intros d Hns; [reflexivity|].
  destruct (Hns n (or_introl eq_refl)) as (e & Hin & <-).
  assert (Hg : getitem lower (e_name e) other = Some (join comma_sp (e_vals e)))
    by (unfold getitem; rewrite (find_name lower other e Ho Hin); reflexivity).
  rewrite Hg. unfold set_all in *. simpl. apply IH. intros; apply Hns; right; assumption.
Qed.

Lemma update_abs st s d d' :
  SInv st -> Inv d -> update lower st s d = Some d' ->
  abs d' = sp_set_all lower (sp_src_items lower (map abs st) s) (abs d).
Proof.
  intros Hs Hd. destruct s as [l|l|o]; simpl.
  - intros [= <-]. apply set_all_abs; assumption.
  - intros [= <-]. apply set_all_abs; assumption.
  - pose proof (SInv_get lower st o Hs) as Ho.
    rewrite update_fold_merged; [|assumption|].
    + intros [= <-]. rewrite set_all_abs by assumption. f_equal.
      rewrite nth_map_abs, <- sp_merged_abs by assumption.
      unfold merged_of, names. rewrite map_map. apply map_ext_in. intros e He.
      unfold getitem. rewrite (find_name lower _ e Ho He). reflexivity.
    + unfold names. intros n Hn. apply in_map_iff in Hn as (e & <- & Hin). eauto.
Qed.

Lemma update_total st s d : SInv st -> Inv d -> update lower st s d <> None.
Proof.
  intros Hs Hd. destruct s as [l|l|o]; simpl; try discriminate.
  pose proof (SInv_get lower st o Hs) as Ho.
  rewrite update_fold_merged; [discriminate | assumption |].
  unfold names. intros n Hn. apply in_map_iff in Hn as (e & <- & Hin). eauto.
Qed.

Lemma construct_abs st s d :
  SInv st -> construct lower st s = Some d -> abs d = sp_construct lower (map abs st) s.
Proof.
  intros Hs. destruct s as [l|l|o]; simpl.
  - intros [= <-]. apply (add_all_abs l []). apply Inv_nil.
  - intros [= <-]. apply (add_all_abs _ []). apply Inv_nil.
  - intros [= <-]. rewrite nth_map_abs. fold (copy lower (get_obj st o)).
    rewrite copy_id by (apply SInv_get; assumption). reflexivity.
Qed.

Lemma construct_total st s : SInv st -> construct lower st s <> None.
Proof.
  intros Hs. destruct s as [l|l|o]; simpl; try discriminate.
Qed.

Lemma prepare_abs l d :
  Inv d -> abs (fold_left (fun d h => discard lower h d) l d) =
           fold_left (fun ls h => sp_del lower h ls) l (abs d).
Proof.
  revert d. induction l as [|h l IH]; simpl; intros d H; [reflexivity|].
  rewrite IH by (apply Inv_discard; assumption). rewrite discard_abs by assumption. reflexivity.
Qed.

Lemma abs_nil_iff d : Inv d -> (abs d = [] <-> d = []).
Proof.
  intros H. split; [|intros ->; reflexivity].
  destruct d as [|e d]; [reflexivity|]. simpl. apply Inv_cons in H as (_ & Hok & _).
  pose proof (lines_of_nonnil lower e Hok). destruct (lines_of e); [congruence | discriminate].
Qed.

(* one step of the model is one step of the specification *)
Lemma step_refines st p :
  SInv st ->
  sp_step lower (map abs st) p = (map abs (fst (step lower st p)), snd (step lower st p)).
Proof.
  intros Hs. pose proof (SInv_get lower st) as G.
  destruct p; cbn [sp_step step]; rewrite ?nth_map_abs.
  - (* set *) cbn [fst snd]. rewrite map_set_obj, setitem_abs by (apply G; assumption). reflexivity.
  - (* del *) pose proof (delitem_abs lower k (get_obj st o) (G o Hs)) as D.
    destruct (delitem lower k (get_obj st o)); cbn [fst snd].
    + destruct D as [-> D]. rewrite map_set_obj, D. reflexivity.
    + rewrite D. reflexivity.
  - (* add *) cbn [fst snd]. rewrite map_set_obj, add_abs by (apply G; assumption). reflexivity.
  - (* extend *) destruct (extend lower st s (get_obj st o)) eqn:E; cbn [fst snd].
    + rewrite map_set_obj. rewrite (extend_abs' st s _ _ Hs (G o Hs) E). reflexivity.
    + exfalso. exact (extend_total st s _ Hs (G o Hs) E).
  - (* update *) destruct (update lower st s (get_obj st o)) eqn:E; cbn [fst snd].
    + rewrite map_set_obj. rewrite (update_abs st s _ _ Hs (G o Hs) E). reflexivity.
    + exfalso. exact (update_total st s _ Hs (G o Hs) E).
  - (* setdefault *) rewrite <- getitem_abs by (apply G; assumption).
    destruct (getitem lower k (get_obj st o)); cbn [fst snd]; [reflexivity|].
    rewrite map_set_obj, setitem_abs by (apply G; assumption). reflexivity.
  - (* pop *) rewrite <- getitem_abs by (apply G; assumption).
    destruct (getitem lower k (get_obj st o)); cbn [fst snd].
    + rewrite map_set_obj, discard_abs by (apply G; assumption). reflexivity.
    + destruct default; reflexivity.
  - (* popitem *) pose proof (G o Hs) as Ho.
    rewrite <- names_abs by assumption.
    destruct (get_obj st o) as [|e d] eqn:E.
    + reflexivity.
    + cbn [names map]. rewrite (popitem_cons lower e d Ho). cbn [fst snd].
      rewrite map_set_obj. rewrite <- getitem_abs, <- remove_abs by assumption.
      assert (F : HeaderDict.find (lower (e_name e)) (e :: d) = Some e)
        by (apply find_name; [assumption | left; reflexivity]).
      unfold getitem. rewrite F.
      destruct (Inv_cons lower e d) as [HC _]. destruct (HC Ho) as (_ & [Hk _] & _).
      simpl remove. rewrite <- Hk, str_eqb_refl. reflexivity.
  - (* discard *) cbn [fst snd]. rewrite map_set_obj, discard_abs by (apply G; assumption). reflexivity.
  - (* clear *) cbn [fst snd]. rewrite map_set_obj, clear_abs by (apply G; assumption). reflexivity.
  - (* copy *) cbn [fst snd]. rewrite map_app, map_length. simpl.
    rewrite copy_id by (apply G; assumption). reflexivity.
  - (* new *) destruct (construct lower st s) eqn:E; cbn [fst snd].
    + rewrite map_app, map_length. simpl. rewrite (construct_abs st s _ Hs E). reflexivity.
    + exfalso. exact (construct_total st s Hs E).
  - (* or *) rewrite copy_id by (apply G; assumption).
    destruct (extend lower st s (get_obj st o)) eqn:E; cbn [fst snd].
    + rewrite map_app, map_length. simpl. rewrite (extend_abs' st s _ _ Hs (G o Hs) E). reflexivity.
    + exfalso. exact (extend_total st s _ Hs (G o Hs) E).
  - (* ior *) destruct (extend lower st s (get_obj st o)) eqn:E; cbn [fst snd].
    + rewrite map_set_obj. rewrite (extend_abs' st s _ _ Hs (G o Hs) E). reflexivity.
    + exfalso. exact (extend_total st s _ Hs (G o Hs) E).
  - (* ror *) destruct (construct lower st s) as [d0|] eqn:E.
    + assert (H0 : Inv d0) by (eapply Inv_construct; eauto).
      rewrite (extend_abs st (SrcHD o) d0 Hs H0). cbn [fst snd].
      rewrite map_app, map_length. simpl. rewrite add_all_abs by assumption.
      rewrite (construct_abs st s _ Hs E). reflexivity.
    + exfalso. exact (construct_total st s Hs E).
  - (* prepare *) cbn [fst snd]. rewrite map_set_obj. unfold prepare_for_method_change.
    rewrite prepare_abs by (apply G; assumption). reflexivity.
Qed.

Theorem run_refines ops st :
  SInv st ->
  sp_run lower ops (map abs st) =
  (map abs (fst (run_trace lower ops st)), snd (run_trace lower ops st)).
Proof.
  revert st. induction ops as [|p ops IH]; simpl; intros st Hs; [reflexivity|].
  rewrite step_refines by assumption.
  destruct (step lower st p) as [st' x] eqn:E. simpl.
  assert (Hs' : SInv st') by (pose proof (SInv_step lower st p Hs) as H; rewrite E in H; exact H).
  rewrite IH by assumption.
  destruct (run_trace lower ops st') as [st'' xs]. reflexivity.
Qed.

(* every observation is a function of the abstract state *)
Theorem observations_refine d :
  Inv d ->
  iteritems lower d = Some (abs d) /\
  itermerged lower d = Some (sp_merged lower (abs d)) /\
  names d = sp_names lower (abs d) /\
  length d = sp_len lower (abs d) /\
  (forall k, getitem lower k d = sp_get lower k (abs d)) /\
  (forall k, contains lower k d = sp_has lower k (abs d)) /\
  (forall k, getlist lower k d = sp_values lower k (abs d)).
Proof.
  intros H. split; [apply iteritems_abs; assumption|].
  split; [rewrite itermerged_eq, sp_merged_abs by assumption; reflexivity|].
  split; [apply names_abs; assumption|].
  split; [unfold sp_len; rewrite <- names_abs by assumption; unfold names; rewrite map_length; reflexivity|].
  split; [intros; apply getitem_abs; assumption|].
  split; [intros; apply contains_abs; assumption | intros; apply getlist_abs; assumption].
Qed.

Theorem eq_refines a b : Inv a -> Inv b -> hd_eq lower a b = Some (sp_eq lower (abs a) (abs b)).
Proof.
  intros Ha Hb. unfold hd_eq, merged_dict, sp_eq.
  rewrite !itermerged_eq, !sp_merged_abs by assumption. reflexivity.
Qed.

(* independence: an operation changes no object other than its target, and
   operations that create an object change none *)
Lemma get_set_other st o o' d : o <> o' -> get_obj (set_obj st o d) o' = get_obj st o'.
Proof.
  unfold get_obj. revert o o'. induction st as [|x st IH]; intros [|o] [|o'] Hne; simpl;
    try reflexivity; try congruence.
  apply IH. congruence.
Qed.

Lemma get_snoc st d o' : o' < length st -> get_obj (st ++ [d]) o' = get_obj st o'.
Proof. intros H. unfold get_obj. apply app_nth1. assumption. Qed.

Theorem step_frame st p o' :
  o' < length st -> target p <> Some o' ->
  get_obj (fst (step lower st p)) o' = get_obj st o'.
Proof.
  intros Hlt Ht.
  destruct p; cbn [step target] in *;
    repeat match goal with
           | |- context [match ?x with _ => _ end] => destruct x
           end; cbn [fst];
    try reflexivity; try (apply get_set_other; congruence); try (apply get_snoc; assumption).
Qed.

End Step.
