(* C19: properties of the Timeout model over exact rationals. *)
From Coq Require Import List QArith Qminmax Bool Lia Lqa.
From V Require Import model.Timeout.
Import ListNotations.
Local Open Scope Q_scope.

(* a timeout built by the constructor: every number is > 0 *)
Definition tv_pos (v : tv) : Prop := match v with TNum q => 0 < q | _ => True end.
Definition Valid (t : timeout) : Prop :=
  tv_pos (t_connect t) /\ tv_pos (t_read t) /\ match t_total t with Some q => 0 < q | None => True end.

Lemma Qle_bool_false q : Qle_bool q 0 = false -> 0 < q.
Proof.
  intros H. destruct (Qlt_le_dec 0 q) as [L|L]; [assumption|].
  apply Qle_bool_iff in L. congruence.
Qed.

Lemma validate_pos r v : validate r = Some v -> tv_pos v.
Proof.
  destruct r; simpl; try (intros [= <-]; exact I); try discriminate.
  destruct (Qle_bool q 0) eqn:E; [discriminate|]. intros [= <-]. simpl. apply Qle_bool_false. assumption.
Qed.

Theorem mk_valid total connect read t : mk total connect read = Some t -> Valid t.
Proof.
  unfold mk. destruct (validate connect) as [c|] eqn:Ec; [|discriminate].
  destruct (validate read) as [r|] eqn:Er; [|discriminate].
  destruct (validate total) as [[| |q]|] eqn:Et; try discriminate; intros [= <-];
    (split; [eapply validate_pos; eauto | split; [eapply validate_pos; eauto|]]); simpl; auto.
  apply (validate_pos _ _ Et).
Qed.

(* invalid values are rejected when the Timeout is built, valid ones accepted *)
Definition raw_ok (r : raw) : Prop :=
  match r with RDefault | RNone => True | RBool | RBad => False | RNum q => 0 < q end.

Theorem validate_iff r : (exists v, validate r = Some v) <-> raw_ok r.
Proof.
  destruct r; simpl; split; try (intros; exact I); try (intros; eexists; reflexivity);
    try (intros [v H]; discriminate); try contradiction.
  - intros [v H]. destruct (Qle_bool q 0) eqn:E; [discriminate|]. apply Qle_bool_false. assumption.
  - intros H. destruct (Qle_bool q 0) eqn:E; [|eexists; reflexivity].
    apply Qle_bool_iff in E. exfalso. apply (Qlt_not_le _ _ H E).
Qed.

Theorem mk_rejects_invalid total connect read :
  ~ raw_ok connect \/ ~ raw_ok read \/ ~ raw_ok total -> mk total connect read = None.
Proof.
  intros H. unfold mk.
  destruct (validate connect) eqn:Ec; [|reflexivity].
  destruct (validate read) eqn:Er; [|reflexivity].
  destruct (validate total) eqn:Et; [|reflexivity].
  exfalso. destruct H as [H|[H|H]]; apply H; apply validate_iff; eauto.
Qed.

(* connect phase: min(connect, total) over whichever is set; never looser *)
Theorem connect_timeout_spec t :
  match t_total t, t_connect t with
  | None, c => connect_timeout t = c
  | Some tot, TNum c => connect_timeout t = TNum (Qmin c tot)
  | Some tot, _ => connect_timeout t = TNum tot
  end.
Proof. unfold connect_timeout. destruct (t_total t), (t_connect t); reflexivity. Qed.

Theorem connect_never_looser t a :
  connect_timeout t = TNum a ->
  (forall c, t_connect t = TNum c -> a <= c) /\ (forall tot, t_total t = Some tot -> a <= tot).
Proof.
  unfold connect_timeout. destruct (t_total t) as [tot|], (t_connect t) as [| |c]; intros [= <-];
    split; intros x [= <-]; try apply Q.le_min_l; try apply Q.le_min_r; apply Qle_refl.
Qed.

Theorem connect_positive t a : Valid t -> connect_timeout t = TNum a -> 0 < a.
Proof.
  intros (Hc & _ & Ht). unfold connect_timeout.
  destruct (t_total t) as [tot|], (t_connect t) as [| |c]; simpl in *; intros [= <-]; try assumption.
  destruct (Q.min_spec c tot) as [[_ E]|[_ E]]; rewrite E; assumption.
Qed.

(* response wait: min(read, total - elapsed) clipped at 0 *)
Theorem read_timeout_spec sys t s now :
  t_start t = Some s ->
  read_timeout sys t now =
  match t_total t, t_read t with
  | Some tot, TNum r => RtVal (Some (Qmax 0 (Qmin (tot - (now - s)) r)))
  | Some tot, _ => RtVal (Some (Qmax 0 (tot - (now - s))))
  | None, r => RtVal (resolve sys r)
  end.
Proof. intros H. unfold read_timeout. rewrite H. destruct (t_total t), (t_read t); reflexivity. Qed.

Theorem read_never_negative_never_looser sys t s now a :
  t_start t = Some s -> read_timeout sys t now = RtVal (Some a) ->
  match t_total t with
  | Some tot =>
      0 <= a /\ (a <= Qmax 0 (tot - (now - s))) /\ (forall r, t_read t = TNum r -> a <= Qmax 0 r)
  | None => forall r, t_read t = TNum r -> a == r
  end.
Proof.
  intros Hs. rewrite (read_timeout_spec sys t s now Hs).
  destruct (t_total t) as [tot|], (t_read t) as [| |r]; simpl.
  - intros [= <-]. split; [apply Q.le_max_l|]. split; [apply Qle_refl | intros ? [=]].
  - intros [= <-]. split; [apply Q.le_max_l|]. split; [apply Qle_refl | intros ? [=]].
  - intros [= <-]. split; [apply Q.le_max_l|]. split.
    + apply Q.max_le_compat_l. apply Q.le_min_l.
    + intros r' [= <-]. apply Q.max_le_compat_l. apply Q.le_min_r.
  - intros H r [=].
  - intros H r [=].
  - intros [= <-] r' [= <-]. reflexivity.
Qed.

(* an exhausted budget raises ReadTimeoutError before any wait on the response *)
Theorem zero_read_raises sys pool r t0 d now tot :
  get_timeout pool r = Some t0 -> t_total t0 = Some tot -> tot <= d ->
  make_request sys pool r true d now =
  ([EConnect (resolve sys (connect_timeout (start_connect t0 now)))], OReadTimeout, now + d).
Proof.
  intros Hg Ht Hd. unfold make_request. rewrite Hg.
  assert (Hz : forall x, x <= 0 -> Qeq_bool (Qmax 0 x) 0 = true).
  { intros x Hx. apply Qeq_bool_iff. apply Q.max_l. assumption. }
  assert (He : tot - (now + d - now) <= 0) by lra.
  rewrite (read_timeout_spec sys (start_connect t0 now) now (now + d) eq_refl).
  cbn [start_connect t_total t_read]. rewrite Ht.
  destruct (t_read t0) as [| |rd].
  - rewrite Hz by assumption. reflexivity.
  - rewrite Hz by assumption. reflexivity.
  - rewrite Hz; [reflexivity|]. eapply Qle_trans; [apply Q.le_min_l | assumption].
Qed.

(* a request-level timeout fully overrides the pool's *)
Definition overrides (r : reqt) : Prop :=
  match r with ReqDefault | ReqRaw RDefault => False | _ => True end.

Theorem request_overrides_pool p1 p2 r : overrides r -> get_timeout p1 r = get_timeout p2 r.
Proof. destruct r as [|t|x]; simpl; try contradiction; [reflexivity|]. destruct x; simpl; try contradiction; reflexivity. Qed.

(* every request runs on a fresh clock: the object used has no start time, and
   the outcome does not depend on any clock state of the pool's or the caller's object *)
Theorem clocks_fresh pool r t : get_timeout pool r = Some t -> t_start t = None.
Proof.
  destruct r as [|t'|x]; simpl.
  - intros [= <-]. reflexivity.
  - intros [= <-]. reflexivity.
  - destruct x; simpl; try (intros [= <-]; reflexivity); unfold from_float, mk; simpl; try discriminate.
    destruct (Qle_bool q 0); [discriminate|]. intros [= <-]. reflexivity.
Qed.

Definition restart (t : timeout) (s : option Q) : timeout := mkT (t_connect t) (t_read t) (t_total t) s.

Theorem clocks_independent sys pool r fresh d now s1 s2 :
  make_request sys (restart pool s1)
    (match r with ReqTimeout t => ReqTimeout (restart t s2) | x => x end) fresh d now =
  make_request sys pool r fresh d now.
Proof.
  unfold make_request.
  assert (E : get_timeout (restart pool s1) (match r with ReqTimeout t => ReqTimeout (restart t s2) | x => x end)
              = get_timeout pool r).
  { destruct r as [|t|x]; simpl; try reflexivity. }
  rewrite E. reflexivity.
Qed.

(* all socket waits of a request are non-negative and within the configured bounds *)
Definition ev_val (e : event) : option Q := match e with EConnect v | ESetTimeout v => v end.

Theorem waits_within_bounds pool r fresh d now t0 evs out now' :
  get_timeout pool r = Some t0 -> Valid t0 -> 0 <= d ->
  make_request None pool r fresh d now = (evs, out, now') ->
  forall e q, In e evs -> ev_val e = Some q ->
    0 <= q /\ (forall tot, t_total t0 = Some tot -> q <= tot).
Proof.
  intros Hg (Hc & Hr & Ht) Hd. unfold make_request. rewrite Hg.
  set (t := start_connect t0 now).
  assert (Hconn : forall q, resolve None (connect_timeout t) = Some q ->
                  0 <= q /\ (forall tot, t_total t0 = Some tot -> q <= tot)).
  { intros q Hq. unfold resolve in Hq. destruct (connect_timeout t) as [| |a] eqn:E; try discriminate.
    injection Hq as <-. split.
    - apply Qlt_le_weak. apply (connect_positive t a); [split; [|split]; assumption | assumption].
    - intros tot Htot. apply (proj2 (connect_never_looser t a E)). assumption. }
  assert (Hread : forall v q, read_timeout None t (if fresh then now + d else now) = RtVal v -> v = Some q ->
                  0 <= q /\ (forall tot, t_total t0 = Some tot -> q <= tot)).
  { intros v q Hrt ->. unfold read_timeout in Hrt. simpl in Hrt.
    destruct (t_total t0) as [tot|] eqn:Et.
    - assert (Hel : tot - ((if fresh then now + d else now) - now) <= tot) by (destruct fresh; lra).
      destruct (t_read t0) as [| |rd]; injection Hrt as <-; (split; [apply Q.le_max_l|]);
        intros tot' [= <-]; apply Q.max_lub; try lra.
      eapply Qle_trans; [apply Q.le_min_l | assumption].
    - destruct (t_read t0) as [| |rd]; simpl in Hrt; try discriminate.
      injection Hrt as <-. simpl in Hr. split; [lra | intros ? [=]]. }
  destruct (read_timeout None t (if fresh then now + d else now)) as [v|] eqn:Ert.
  - destruct v as [q0|].
    + destruct (Qeq_bool q0 0).
      * intros [= <- _ _] e q Hin He. destruct fresh; destruct Hin as [<-|[]]; simpl in He; apply Hconn; assumption.
      * intros [= <- _ _] e q Hin He. apply in_app_iff in Hin as [Hin|[<-|[]]].
        -- destruct fresh; destruct Hin as [<-|[]]; simpl in He; apply Hconn; assumption.
        -- simpl in He. eapply Hread; eauto.
    + intros [= <- _ _] e q Hin He. apply in_app_iff in Hin as [Hin|[<-|[]]].
      * destruct fresh; destruct Hin as [<-|[]]; simpl in He; apply Hconn; assumption.
      * simpl in He. discriminate.
  - intros [= <- _ _] e q Hin He. destruct fresh; destruct Hin as [<-|[]]; simpl in He; apply Hconn; assumption.
Qed.
