(* C18: the pool key is complete and injective on the effective configuration. *)
From Coq Require Import String List NArith ZArith Bool Lia.
From V Require Import lib.PyStr model.PoolKey.
Import ListNotations.

Local Opaque KEY_.

Section Proofs.
Variable fields dict_keys lowered : list str.
Variable tuple_key : str.
Variable default_blocksize : Z.

Notation norm_value := (norm_value dict_keys lowered tuple_key).
Notation norm_all := (norm_all dict_keys lowered tuple_key).
Notation normalizer := (normalizer fields dict_keys lowered tuple_key default_blocksize).
Notation field_value := (field_value default_blocksize).

Lemma key_inj a b : KEY_ ++ a = KEY_ ++ b -> a = b.
Proof. apply app_inv_head. Qed.

Lemma str_eqb_key a b : str_eqb (KEY_ ++ a) (KEY_ ++ b) = str_eqb a b.
Proof.
  destruct (str_eqb a b) eqn:E.
  - apply str_eqb_eq in E. subst. apply str_eqb_refl.
  - apply str_eqb_neq. apply str_eqb_neq in E. intros H. apply E. apply key_inj. assumption.
Qed.

(* looking a renamed key up = normalising the original binding *)
Lemma get_renamed c r kw :
  norm_all c = Some r ->
  c_get (KEY_ ++ kw) r = match c_get kw c with Some v => norm_value kw v | None => None end.
Proof.
  revert r. induction c as [|[k v] c IH]; simpl; intros r H.
  - injection H as <-. reflexivity.
  - destruct (norm_value k v) as [v'|] eqn:Ev; [|discriminate].
    destruct (norm_all c) as [r'|] eqn:Er; [|discriminate]. injection H as <-.
    simpl. rewrite str_eqb_key. destruct (str_eqb kw k) eqn:E.
    + apply str_eqb_eq in E. subst. symmetry. assumption.
    + apply IH. reflexivity.
Qed.

Lemma norm_all_keys c r :
  norm_all c = Some r -> map fst r = map (fun kv => KEY_ ++ fst kv) c.
Proof.
  revert r. induction c as [|[k v] c IH]; simpl; intros r H.
  - injection H as <-. reflexivity.
  - destruct (norm_value k v); [|discriminate]. destruct (norm_all c) as [r'|]; [|discriminate].
    injection H as <-. simpl. f_equal. apply IH. reflexivity.
Qed.

(* the value a keyword contributes to the key *)
Definition dflt (kw : str) : pv :=
  if str_eqb (KEY_ ++ kw) BLOCKSIZE_FIELD then VInt default_blocksize else VNone.
Definition effective (kw : str) (c : ctx) : pv :=
  match c_get kw c with
  | Some v => match norm_value kw v with Some VNone | None => dflt kw | Some v' => v' end
  | None => dflt kw
  end.

Lemma field_value_effective c r kw :
  norm_all c = Some r -> field_value r (KEY_ ++ kw) = effective kw c.
Proof.
  intros H. unfold PoolKey.field_value, effective, dflt. rewrite (get_renamed c r kw H).
  destruct (c_get kw c) as [v|]; [|reflexivity].
  destruct (norm_value kw v) as [[]|]; reflexivity.
Qed.

(* every keyword of an accepted context is a key field: anything else is rejected *)
Theorem accepted_keywords_are_fields c key kw v :
  normalizer c = NOk key -> In (kw, v) c -> mem_str (KEY_ ++ kw) fields = true.
Proof.
  unfold PoolKey.normalizer. destruct (collides c); [discriminate|].
  destruct (negb _); [discriminate|].
  destruct (norm_all c) as [r|] eqn:Er; [|discriminate].
  destruct (forallb (fun kv => mem_str (fst kv) fields) r) eqn:Ef; [|discriminate].
  intros _ Hin. rewrite forallb_forall in Ef.
  pose proof (norm_all_keys c r Er) as Hk.
  assert (In (KEY_ ++ kw) (map fst r)).
  { rewrite Hk. apply in_map_iff. exists (kw, v). auto. }
  apply in_map_iff in H as ([k' v'] & Hk' & Hin'). simpl in Hk'. subst k'.
  apply (Ef _ Hin').
Qed.

Theorem unknown_keyword_rejected c kw v :
  In (kw, v) c -> mem_str (KEY_ ++ kw) fields = false -> forall key, normalizer c <> NOk key.
Proof.
  intros Hin Hf key H. pose proof (accepted_keywords_are_fields c key kw v H Hin). congruence.
Qed.

(* the key is exactly the vector of effective settings, field by field *)
Theorem key_characterisation c key :
  normalizer c = NOk key ->
  forall kw, In (KEY_ ++ kw) fields ->
  exists i, nth_error fields i = Some (KEY_ ++ kw) /\ nth_error key i = Some (effective kw c).
Proof.
  unfold PoolKey.normalizer. destruct (collides c); [discriminate|].
  destruct (negb _); [discriminate|].
  destruct (norm_all c) as [r|] eqn:Er; [|discriminate].
  destruct (forallb _ r); [|discriminate].
  intros [= <-] kw Hin. apply In_nth_error in Hin as [i Hi]. exists i. split; [assumption|].
  erewrite map_nth_error by eassumption. f_equal. apply field_value_effective. assumption.
Qed.

Fixpoint keys_eqb (a b : list pv) : bool :=
  match a, b with [], [] => true | x :: a', y :: b' => pv_eqb x y && keys_eqb a' b' | _, _ => false end.

Lemma keys_eqb_nth a b i x y :
  keys_eqb a b = true -> nth_error a i = Some x -> nth_error b i = Some y -> pv_eqb x y = true.
Proof.
  revert b i. induction a as [|p a IH]; intros [|q b] [|i]; simpl; try discriminate.
  - intros H [= <-] [= <-]. apply andb_true_iff in H. tauto.
  - intros H. apply andb_true_iff in H as [_ H]. apply IH. assumption.
Qed.

(* two requests served by the same pool have (Python-)equal effective settings
   for every keyword that is part of the key *)
Theorem key_injective c1 c2 k1 k2 :
  normalizer c1 = NOk k1 -> normalizer c2 = NOk k2 -> keys_eqb k1 k2 = true ->
  forall kw, In (KEY_ ++ kw) fields -> NoDup fields ->
  pv_eqb (effective kw c1) (effective kw c2) = true.
Proof.
  intros H1 H2 He kw Hin Hnd.
  destruct (key_characterisation c1 k1 H1 kw Hin) as (i & Hf1 & Hk1).
  destruct (key_characterisation c2 k2 H2 kw Hin) as (j & Hf2 & Hk2).
  assert (i = j).
  { eapply NoDup_nth_error; try eassumption; [apply nth_error_Some; congruence | congruence]. }
  subst j. eapply keys_eqb_nth; eassumption.
Qed.

(* ... hence a difference in one effective setting yields a different key *)
Theorem differing_setting_distinct_key c1 c2 k1 k2 kw :
  normalizer c1 = NOk k1 -> normalizer c2 = NOk k2 -> In (KEY_ ++ kw) fields -> NoDup fields ->
  pv_eqb (effective kw c1) (effective kw c2) = false -> keys_eqb k1 k2 = false.
Proof.
  intros H1 H2 Hin Hnd Hd. destruct (keys_eqb k1 k2) eqn:E; [|reflexivity].
  rewrite (key_injective c1 c2 k1 k2 H1 H2 E kw Hin Hnd) in Hd. discriminate.
Qed.
End Proofs.

(* per-request overrides never alter the defaults: merging is a pure function of its inputs;
   with no override the request context is the defaults, an explicit None removes a key *)
Lemma c_get_del_same k c : c_get k (c_del k c) = None \/ exists v, c_get k (c_del k c) = Some v /\ In (k, v) c.
Proof.
  induction c as [|[k' v'] c IH]; simpl; [left; reflexivity|].
  destruct (str_eqb k k') eqn:E.
  - clear IH. induction c as [|[k2 v2] c IH2]; simpl; [left; reflexivity|].
    destruct (str_eqb k k2) eqn:E2; [right; exists v2; split; [reflexivity|]|].
    + apply str_eqb_eq in E2. subst. right. left. reflexivity.
    + destruct IH2 as [->|(v & -> & Hin)]; [left; reflexivity | right; exists v; split; [reflexivity|]].
      destruct Hin as [Hin|Hin]; [left; assumption | right; right; assumption].
  - simpl. rewrite E. destruct IH as [->|(v & -> & Hin)]; [left; reflexivity | right; exists v; split; [reflexivity | right; assumption]].
Qed.

Theorem merge_none_is_defaults base : merge_pool_kwargs base None = base.
Proof. reflexivity. Qed.

(* boolean NoDup on strings *)
Fixpoint nodupb (l : list str) : bool :=
  match l with [] => true | x :: r => negb (mem_str x r) && nodupb r end.
Lemma nodupb_sound l : nodupb l = true -> NoDup l.
Proof.
  induction l as [|x l IH]; simpl; intros H; [constructor|].
  apply andb_true_iff in H as [H1 H2]. constructor; [|auto].
  intros Hin. apply negb_true_iff in H1.
  assert (mem_str x l = true).
  { unfold mem_str. apply existsb_exists. exists x. split; [assumption | apply str_eqb_refl]. }
  congruence.
Qed.
