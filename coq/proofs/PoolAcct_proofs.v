(* C01: slot accounting invariants of the pool model. *)
From Coq Require Import String List NArith ZArith Bool Arith Lia Permutation.
Local Open Scope nat_scope.
From V Require Import lib.PyStr model.Retry model.PoolAcct.
Import ListNotations.

Definition qconns (q : list (option conn)) : list conn :=
  flat_map (fun o => match o with Some c => [c] | None => [] end) q.
Definition fl_list (fl : option conn) : list conn := match fl with Some c => [c] | None => [] end.
(* every connection object the pool machinery currently knows: idle, owned by a response, in flight *)
Definition tracked (st : pstate) (fl : option conn) : list conn := qconns (p_q st) ++ p_leases st ++ fl_list fl.
Definition socks_of (l : list conn) : list nat :=
  flat_map (fun c => match c_sock c with Some s => [s] | None => [] end) l.

Section Params.
Variable M : nat.
Variable B : bool.
Notation checkout := (checkout B).
Notation put := (put M).

Record GInv (st : pstate) (fl : option conn) : Prop := {
  gi_len : length (p_q st) <= M;
  gi_sum : if B
           then length (p_q st) + length (p_leases st) + length (fl_list fl) = M
           else M <= length (p_q st) + length (p_leases st) + length (fl_list fl);
  gi_ids : NoDup (map c_id (tracked st fl));
  gi_socks : NoDup (socks_of (tracked st fl));
  gi_open : forall s, In s (p_open st) -> In s (socks_of (tracked st fl));
  gi_open_nd : NoDup (p_open st);
  gi_cid : forall c, In c (tracked st fl) -> c_id c < p_next_cid st;
  gi_sid : forall s, In s (socks_of (tracked st fl)) -> s < p_next_sid st
}.

Definition Inv (st : pstate) : Prop := GInv st None.

(* ---------- small facts ---------- *)
Lemma socks_of_app a b : socks_of (a ++ b) = socks_of a ++ socks_of b.
Proof. apply flat_map_app. Qed.

Lemma qconns_length q : length (qconns q) <= length q.
Proof. induction q as [|[c|] q IH]; simpl; lia. Qed.

Lemma init_inv : Inv (init_pool M).
Proof.
  assert (Q : forall m, qconns (repeat None m) = []) by (induction m; simpl; auto).
  constructor; unfold tracked; simpl; rewrite ?Q, ?repeat_length; simpl; try constructor; try lia; try tauto.
  destruct B; lia.
Qed.

Lemma perm_inv st st' fl fl' :
  M = M -> B = B ->
  length (p_q st') <= M ->
  length (p_q st') + length (p_leases st') + length (fl_list fl') = length (p_q st) + length (p_leases st) + length (fl_list fl) ->
  Permutation (tracked st fl) (tracked st' fl') ->
  p_open st' = p_open st -> p_next_cid st <= p_next_cid st' -> p_next_sid st <= p_next_sid st' ->
  GInv st fl -> GInv st' fl'.
Proof.
  intros Hm Hb Hl Hs HP Ho Hc Hsd [g1 g2 g3 g4 g5 g6 g7 g8].
  assert (HPs : Permutation (socks_of (tracked st fl)) (socks_of (tracked st' fl'))).
  { unfold socks_of. apply Permutation_flat_map. exact HP. }
  constructor; rewrite ?Hm, ?Hb, ?Ho; try assumption.
  - rewrite Hs. exact g2.
  - eapply Permutation_NoDup; [apply Permutation_map; exact HP | exact g3].
  - eapply Permutation_NoDup; [exact HPs | exact g4].
  - intros s Hs'. eapply Permutation_in; [exact HPs | apply g5; exact Hs'].
  - intros c Hc'. apply Permutation_sym in HP. pose proof (Permutation_in _ HP Hc'). specialize (g7 _ H). lia.
  - intros s Hs'. apply Permutation_sym in HPs. pose proof (Permutation_in _ HPs Hs'). specialize (g8 _ H). lia.
Qed.

(* ---------- the connection in flight is the last element of `tracked` ---------- *)
Definition base (st : pstate) : list conn := qconns (p_q st) ++ p_leases st.
Lemma tracked_flight st c : tracked st (Some c) = base st ++ [c].
Proof. unfold tracked, base. simpl. rewrite app_assoc. reflexivity. Qed.
Lemma tracked_none st : tracked st None = base st.
Proof. unfold tracked, base. simpl. rewrite app_nil_r. reflexivity. Qed.

Lemma NoDup_snoc {A} (l : list A) x : NoDup l -> ~ In x l -> NoDup (l ++ [x]).
Proof.
  intros Hn Hx. apply Permutation_NoDup with (l := x :: l); [apply Permutation_cons_append | constructor; assumption].
Qed.
Lemma NoDup_snoc_inv {A} (l : list A) x : NoDup (l ++ [x]) -> NoDup l /\ ~ In x l.
Proof.
  intros H. apply Permutation_NoDup with (l' := x :: l) in H; [|apply Permutation_sym, Permutation_cons_append].
  inversion H; auto.
Qed.

(* a brand-new connection object without a socket enters flight; the queue loses at most one placeholder *)
Lemma flight_fresh st q' b :
  Inv st -> B = b -> qconns q' = qconns (p_q st) ->
  length q' <= M ->
  (if B then length q' + 1 = length (p_q st) else length (p_q st) <= length q' + 1) ->
  GInv (mkP q' (p_leases st) (p_open st) (S (p_next_cid st)) (p_next_sid st) (p_connects st))
       (Some (mkConn (p_next_cid st) None false false)).
Proof.
  intros [g1 g2 g3 g4 g5 g6 g7 g8] Hblk Hq Hl Hs. subst b. rewrite tracked_none in *.
  set (st' := mkP q' _ _ _ _ _). set (c := mkConn _ None false false).
  assert (Hb : base st' = base st) by (unfold base, st'; simpl; rewrite Hq; reflexivity).
  constructor; rewrite ?tracked_flight, ?Hb; simpl.
  - exact Hl.
  - simpl in g2. destruct (B); lia.
  - rewrite map_app. simpl. apply NoDup_snoc; [assumption|].
    intros H. apply in_map_iff in H as (x & Hx & Hin). specialize (g7 x Hin). simpl in Hx. lia.
  - rewrite socks_of_app. simpl. rewrite app_nil_r. assumption.
  - intros s H. rewrite socks_of_app. apply in_app_iff. left. auto.
  - assumption.
  - intros x H. apply in_app_iff in H as [H|[<-|[]]]; [specialize (g7 x H); lia | simpl; lia].
  - intros s H. rewrite socks_of_app in H. simpl in H. rewrite app_nil_r in H. auto.
Qed.

(* an idle connection leaves the queue and enters flight *)
Lemma flight_from_queue st c r :
  Inv st -> p_q st = Some c :: r -> GInv (set_q st r) (Some c).
Proof.
  intros H Hq. eapply perm_inv; try exact H; try reflexivity; simpl.
  - destruct H as [g1 _ _ _ _ _ _ _]. rewrite Hq in g1. simpl in g1. lia.
  - rewrite Hq. simpl. lia.
  - unfold tracked. simpl. rewrite Hq. simpl. rewrite app_nil_r.
    rewrite app_assoc. apply Permutation_cons_append.
Qed.

Lemma socks_of_one c : socks_of [c] = match c_sock c with Some s => [s] | None => [] end.
Proof. unfold socks_of. simpl. rewrite app_nil_r. reflexivity. Qed.

(* conn.close() on the connection in flight *)
Lemma flight_close st c :
  GInv st (Some c) -> GInv (fst (close_conn st c)) (Some (snd (close_conn st c))).
Proof.
  intros [g1 g2 g3 g4 g5 g6 g7 g8]. rewrite tracked_flight in *. unfold close_conn.
  rewrite map_app in g3. rewrite socks_of_app, socks_of_one in g4, g5, g8.
  assert (G7 : forall x, In x (base st ++ [mkConn (c_id c) None false false]) -> c_id x < p_next_cid st).
  { intros x Hx. apply in_app_iff in Hx as [Hx|[<-|[]]]; [apply g7; apply in_app_iff; auto|].
    apply (g7 c). apply in_app_iff. right. left. reflexivity. }
  destruct (c_sock c) as [s|] eqn:Es; cbn [fst snd].
  - apply NoDup_snoc_inv in g4 as [g4 g4'].
    constructor; rewrite ?tracked_flight; unfold base in *; cbn [p_q p_leases p_open p_next_cid p_next_sid set_open] in *.
    + assumption.
    + assumption.
    + rewrite map_app. assumption.
    + rewrite socks_of_app, socks_of_one. cbn [c_sock]. rewrite app_nil_r. assumption.
    + intros x Hx. unfold remove_nat in Hx. apply filter_In in Hx as [Hx Hne]. apply negb_true_iff, Nat.eqb_neq in Hne.
      rewrite socks_of_app, socks_of_one. cbn [c_sock]. rewrite app_nil_r. specialize (g5 x Hx).
      apply in_app_iff in g5 as [g5|[g5|[]]]; [assumption | congruence].
    + unfold remove_nat. apply NoDup_filter. assumption.
    + exact G7.
    + intros x Hx. rewrite socks_of_app, socks_of_one in Hx. cbn [c_sock] in Hx. rewrite app_nil_r in Hx. apply g8. apply in_app_iff. auto.
  - rewrite app_nil_r in g4, g5, g8.
    constructor; rewrite ?tracked_flight; unfold base in *; try assumption.
    + rewrite map_app. assumption.
    + rewrite socks_of_app, socks_of_one. cbn [c_sock]. rewrite app_nil_r. assumption.
    + intros x Hx. rewrite socks_of_app, socks_of_one. cbn [c_sock]. rewrite app_nil_r. auto.
    + intros x Hx. rewrite socks_of_app, socks_of_one in Hx. cbn [c_sock] in Hx. rewrite app_nil_r in Hx. auto.
Qed.

Lemma close_conn_sock st c : c_sock (snd (close_conn st c)) = None.
Proof. reflexivity. Qed.
Lemma close_conn_params st c :
  True /\ True /\
  p_q (fst (close_conn st c)) = p_q st /\ p_leases (fst (close_conn st c)) = p_leases st.
Proof. unfold close_conn. destruct (c_sock c); simpl; auto. Qed.

(* a new TCP connection for the (socket-less) connection in flight *)
Lemma flight_open st c :
  GInv st (Some c) -> c_sock c = None -> GInv (fst (open_sock st c)) (Some (snd (open_sock st c))).
Proof.
  intros [g1 g2 g3 g4 g5 g6 g7 g8] Es. rewrite tracked_flight in *. unfold open_sock. cbn [fst snd].
  rewrite map_app in g3. rewrite socks_of_app, socks_of_one, Es, app_nil_r in g4, g5, g8.
  constructor; rewrite ?tracked_flight; unfold base in *; cbn [p_q p_leases p_open p_next_cid p_next_sid] in *; try assumption.
  - rewrite map_app. assumption.
  - rewrite socks_of_app, socks_of_one. cbn [c_sock]. apply NoDup_snoc; [assumption|]. intros H. specialize (g8 _ H). lia.
  - intros x Hx. rewrite socks_of_app, socks_of_one. cbn [c_sock]. apply in_app_iff in Hx as [Hx|[<-|[]]]; apply in_app_iff; [left; auto | right; left; reflexivity].
  - apply NoDup_snoc; [assumption|]. intros H. specialize (g5 _ H). specialize (g8 _ g5). lia.
  - intros x Hx. apply in_app_iff in Hx as [Hx|[<-|[]]]; [apply g7; apply in_app_iff; auto | apply (g7 c); apply in_app_iff; right; left; reflexivity].
  - intros x Hx. rewrite socks_of_app, socks_of_one in Hx. cbn [c_sock] in Hx. apply in_app_iff in Hx as [Hx|[<-|[]]]; [specialize (g8 _ Hx); lia | lia].
Qed.

(* the connection in flight changes flags only (same identity, same socket) *)
Lemma flight_same st c c' :
  GInv st (Some c) -> c_id c' = c_id c -> c_sock c' = c_sock c -> GInv st (Some c').
Proof.
  intros [g1 g2 g3 g4 g5 g6 g7 g8] Hi Hs. rewrite tracked_flight in *.
  rewrite map_app in g3. rewrite socks_of_app, socks_of_one in g4, g5, g8.
  constructor; rewrite ?tracked_flight; try assumption.
  - rewrite map_app. simpl. rewrite Hi. assumption.
  - rewrite socks_of_app, socks_of_one, Hs. assumption.
  - intros x Hx. rewrite socks_of_app, socks_of_one, Hs. auto.
  - intros x Hx. apply in_app_iff in Hx as [Hx|[<-|[]]]; [apply g7; apply in_app_iff; auto | rewrite Hi; apply (g7 c); apply in_app_iff; right; left; reflexivity].
  - intros x Hx. rewrite socks_of_app, socks_of_one, Hs in Hx. auto.
Qed.

(* ---------- how an attempt ends ---------- *)
(* the (socket-less) connection in flight is dropped and a placeholder goes back *)
Lemma end_put_none st c : GInv st (Some c) -> c_sock c = None -> Inv (put st None).
Proof.
  intros [g1 g2 g3 g4 g5 g6 g7 g8] Es. rewrite tracked_flight in *.
  rewrite map_app in g3. rewrite socks_of_app, socks_of_one, Es, app_nil_r in g4, g5, g8.
  apply NoDup_snoc_inv in g3 as [g3 _].
  assert (G7 : forall x, In x (base st) -> c_id x < p_next_cid st) by (intros x Hx; apply g7; apply in_app_iff; auto).
  unfold put. simpl in g2. destruct (Nat.ltb (length (p_q st)) (M)) eqn:E.
  - apply Nat.ltb_lt in E. constructor; rewrite ?tracked_none; unfold base in *; simpl; try assumption; try lia.
    destruct (B); lia.
  - apply Nat.ltb_ge in E. constructor; rewrite ?tracked_none; unfold base in *; simpl; try assumption; try lia.
    destruct (B); lia.
Qed.

(* the connection in flight goes back to the pool (a full pool closes and drops it) *)
Lemma end_put_some st c : GInv st (Some c) -> Inv (put st (Some c)).
Proof.
  intros H. unfold put. destruct (Nat.ltb (length (p_q st)) (M)) eqn:E.
  - apply Nat.ltb_lt in E. eapply perm_inv; try exact H; try reflexivity; simpl; try lia.
    unfold tracked. simpl. rewrite app_nil_r. rewrite app_assoc. apply Permutation_sym, Permutation_cons_append.
  - apply Nat.ltb_ge in E.
    pose proof (flight_close st c H) as Hc. destruct (close_conn_params st c) as (P1 & P2 & P3 & P4).
    set (st' := fst (close_conn st c)) in *. set (c' := snd (close_conn st c)) in *.
    destruct Hc as [g1 g2 g3 g4 g5 g6 g7 g8]. rewrite tracked_flight in *.
    rewrite map_app in g3. rewrite socks_of_app, socks_of_one in g4, g5, g8.
    assert (Es : c_sock c' = None) by reflexivity. rewrite Es, app_nil_r in g4, g5, g8.
    apply NoDup_snoc_inv in g3 as [g3 _].
    constructor; rewrite ?tracked_none; try assumption.
    + assert (Q1 : length (p_q st') = length (p_q st)) by (rewrite P3; reflexivity).
      simpl in g2. destruct B; lia.
    + intros x Hx. apply g7. apply in_app_iff. auto.
Qed.

(* the response takes ownership of the connection in flight *)
Lemma end_lease st c : GInv st (Some c) -> Inv (lease st c).
Proof.
  intros H. eapply perm_inv; try exact H; try reflexivity; simpl; try lia.
  - destruct H. assumption.
  - unfold tracked. simpl. rewrite app_nil_r. apply Permutation_app_head. apply Permutation_sym, Permutation_cons_append.
Qed.

(* a response gives its connection up: it is in flight again *)
Lemma filter_other_ids (l : list conn) c :
  NoDup (map c_id l) -> In c l ->
  Permutation l (c :: filter (fun x => negb (conn_eqb x c)) l).
Proof.
  induction l as [|x l IH]; simpl; intros Hn Hin; [contradiction|].
  inversion Hn; subst. destruct Hin as [->|Hin].
  - unfold conn_eqb at 1. rewrite Nat.eqb_refl. simpl. constructor.
    (* no other element has this id *)
    assert (F : filter (fun x => negb (conn_eqb x c)) l = l).
    { clear IH Hn H2. induction l as [|y l IHl]; simpl; [reflexivity|].
      assert (Hy : conn_eqb y c = false).
      { unfold conn_eqb. apply Nat.eqb_neq. intros E. apply H1. rewrite <- E. left. reflexivity. }
      rewrite Hy. simpl. f_equal. apply IHl. intros X. apply H1. right. assumption. }
    rewrite F. reflexivity.
  - assert (Hne : conn_eqb x c = false).
    { unfold conn_eqb. apply Nat.eqb_neq. intros E. apply H1. rewrite E. apply in_map. assumption. }
    rewrite Hne. simpl. rewrite (IH H2 Hin) at 1. apply perm_swap.
Qed.

Lemma start_unlease st c : Inv st -> In c (p_leases st) -> GInv (unlease st c) (Some c).
Proof.
  intros H Hin.
  assert (Hnd : NoDup (map c_id (p_leases st))).
  { destruct H as [_ _ g3 _ _ _ _ _]. unfold tracked in g3. simpl in g3. rewrite app_nil_r, map_app in g3.
    clear - g3. induction (map c_id (qconns (p_q st))) as [|x l IH]; simpl in g3; [assumption|].
    inversion g3; auto. }
  pose proof (filter_other_ids _ c Hnd Hin) as P.
  eapply perm_inv; try exact H; try reflexivity; simpl.
  - destruct H. assumption.
  - apply Permutation_length in P. simpl in P. lia.
  - unfold tracked. simpl. rewrite app_nil_r. apply Permutation_app_head.
    rewrite P at 1. apply Permutation_cons_append.
Qed.



(* ---------- composite steps ---------- *)
Lemma checkout_inv st st1 c : Inv st -> checkout st = Some (st1, c) -> GInv st1 (Some c).
Proof.
  intros H. unfold checkout. destruct (p_q st) as [|[c0|] r] eqn:Eq.
  - destruct (B) eqn:Eb; [discriminate|]. intros [= <- <-].
    apply (flight_fresh st [] false); try assumption; simpl; try lia; [rewrite Eq; reflexivity | rewrite Eb, Eq; simpl; lia].
  - destruct (c_sock c0) eqn:Es.
    + destruct (c_pending c0).
      * intros E. pose proof (flight_from_queue st c0 r H Eq) as G.
        pose proof (flight_close _ _ G) as G'. destruct (close_conn (set_q st r) c0) as [a b]. injection E as <- <-. exact G'.
      * intros [= <- <-]. apply flight_from_queue; assumption.
    + intros [= <- <-]. apply flight_from_queue; assumption.
  - intros [= <- <-]. pose proof H as H0. destruct H0 as [g1 g2 _ _ _ _ _ _].
    apply (flight_fresh st r (B)); [exact H | reflexivity | rewrite Eq; reflexivity | rewrite Eq in g1; simpl in g1; lia|].
    rewrite Eq. simpl. destruct (B); lia.
Qed.

Lemma after_body_inv st c ka b :
  GInv st (Some c) -> GInv (fst (after_body st c ka b)) (Some (snd (after_body st c ka b))).
Proof.
  intros H. unfold after_body. destruct b; [destruct ka|..]; try apply flight_close; try assumption.
  simpl. eapply flight_same; [exact H | reflexivity | reflexivity].
Qed.

Lemma E_err st c : GInv st (Some c) -> Inv (put (fst (close_conn st c)) None).
Proof. intros H. eapply end_put_none; [apply flight_close; exact H | reflexivity]. Qed.

Lemma E_put st c ka b : GInv st (Some c) -> Inv (put (fst (after_body st c ka b)) (Some (snd (after_body st c ka b)))).
Proof. intros H. apply end_put_some. apply after_body_inv. exact H. Qed.

Lemma connect_step_inv st c (a : attempt) need :
  GInv st (Some c) -> (need = true -> c_sock c = None) ->
  GInv (fst (if need then match at_connect a with KOk => open_sock st c | _ => (st, c) end else (st, c)))
       (Some (snd (if need then match at_connect a with KOk => open_sock st c | _ => (st, c) end else (st, c)))).
Proof.
  intros H Hn. destruct need; [|exact H]. destruct (at_connect a); try exact H. apply flight_open; auto.
Qed.

Section U.
Variable L : lattice.
Variable to_ssl to_protocol ce re : list str.
Variable rac : list Z.
Variable rc : bool.

Notation urlopen := (urlopen M B L to_ssl to_protocol ce re rac).

Definition Post (x : pstate * result * option held * list attempt) : Prop :=
  let '(st', _, h, _) := x in
  Inv st' /\ (forall hd, h = Some hd -> In (h_conn hd) (p_leases st')).

Ltac done_err G := split; [apply E_err; exact G | intros hd X; discriminate X].
Ltac done_put G := split; [apply E_put; exact G | intros hd X; discriminate X].

Theorem urlopen_inv script st rq r : Inv st -> Post (urlopen script st rq r).
Proof.
  revert st r. induction script as [|a rest IH]; intros st r H; cbn [PoolAcct.urlopen].
  - split; [assumption | intros hd X; discriminate X].
  - destruct (checkout st) as [[st1 c]|] eqn:Ec; [|split; [assumption | intros hd X; discriminate X]].
    pose proof (checkout_inv _ _ _ H Ec) as G1.
    set (need := match c_sock c with None => true | Some _ => false end).
    assert (Hneed : need = true -> c_sock c = None) by (unfold need; destruct (c_sock c); [discriminate | reflexivity]).
    pose proof (connect_step_inv st1 c a need G1 Hneed) as G2.
    destruct (if need then match at_connect a with KOk => open_sock st1 c | _ => (st1, c) end else (st1, c)) as [st2 c2] eqn:E2.
    cbn [fst snd] in G2.
    destruct (attempt_raises need (c_dirty c) a) as [[cls|]|].
    + (* an exception class *)
      destruct (close_conn st2 c2) as [st3 c3] eqn:E3.
      assert (G3 : Inv (put st3 None)) by (pose proof (E_err st2 c2 G2) as X; rewrite E3 in X; exact X).
      match goal with |- context [increment L ce re r ?m ?i] => destruct (increment L ce re r m i) as [r'| |ie] end;
        try (split; [exact G3 | intros hd X; discriminate X]).
      apply IH. exact G3.
    + (* an interrupt *)
      destruct (close_conn st2 c2) as [st3 c3] eqn:E3.
      pose proof (E_err st2 c2 G2) as X. rewrite E3 in X. split; [exact X | intros hd Y; discriminate Y].
    + assert (Gerr : forall st3 c3, close_conn st2 c2 = (st3, c3) -> Inv (put st3 None)).
      { intros st3 c3 E3. pose proof (E_err st2 c2 G2) as X. rewrite E3 in X. exact X. }
      destruct (at_recv a) as [status ra ka body rd| | | | |];
        try (destruct (close_conn st2 c2) as [st3 c3] eqn:E3; split; [eapply Gerr; reflexivity | intros hd X; discriminate X]).
      destruct (rq_preload rq).
      * (* preloaded: the body is read inside _make_request *)
        destruct body.
        -- (* complete body *)
           pose proof (E_put st2 c2 ka BOk G2) as Gp.
           destruct (after_body st2 c2 ka BOk) as [st3 c3] eqn:E3. cbn [fst snd] in Gp.
           destruct (rd && rq_redirect rq).
           ++ match goal with |- context [increment L ce re r ?m ?i] => destruct (increment L ce re r m i) as [r'| |ie] end;
                try (destruct (r_raise_on_redirect r); (split; [exact Gp | intros hd X; discriminate X])).
              apply IH. exact Gp.
           ++ match goal with |- context [if ?c then _ else _] => destruct c end; [|split; [exact Gp | intros hd X; discriminate X]].
              match goal with |- context [increment L ce re r ?m ?i] => destruct (increment L ce re r m i) as [r'| |ie] end;
                try (destruct (r_raise_on_status r); (split; [exact Gp | intros hd X; discriminate X])).
              apply IH. exact Gp.
        -- (* short body: ProtocolError inside the try block *)
           destruct (close_conn st2 c2) as [st3 c3] eqn:E3. pose proof (Gerr _ _ eq_refl) as G3.
           match goal with |- context [increment L ce re r ?m ?i] => destruct (increment L ce re r m i) as [r'| |ie] end;
             try (split; [exact G3 | intros hd X; discriminate X]).
           apply IH. exact G3.
        -- destruct (close_conn st2 c2) as [st3 c3] eqn:E3. split; [eapply Gerr; reflexivity | intros hd X; discriminate X].
      * (* the response owns the connection *)
        pose proof (E_put st2 c2 ka body G2) as Gp.
        assert (Glease : Post (lease st2 c2, ResResponse status, Some (mkHeld c2 ka body), rest)).
        { split; [apply end_lease; exact G2 | intros hd [= <-]; left; reflexivity]. }
        destruct (after_body st2 c2 ka body) as [st3 c3] eqn:E3. cbn [fst snd] in Gp.
        match goal with |- context [if ?c then _ else _] => destruct c end; [|exact Glease].
        match goal with |- context [increment L ce re r ?m ?i] => destruct (increment L ce re r m i) as [r'| |ie] end.
        -- destruct body; try (apply IH; exact Gp). split; [exact Gp | intros hd X; discriminate X].
        -- match goal with |- context [if ?c then _ else _] => destruct c end; [|exact Glease].
           destruct body; (split; [exact Gp | intros hd X; discriminate X]).
        -- match goal with |- context [if ?c then _ else _] => destruct c end; [|exact Glease].
           destruct body; (split; [exact Gp | intros hd X; discriminate X]).
Qed.

(* ---------- disposing of a held response ---------- *)
Theorem dispose_inv st h d : Inv st -> In (h_conn h) (p_leases st) -> Inv (dispose M rc st h d).
Proof.
  intros H Hin. pose proof (start_unlease st (h_conn h) H Hin) as G. unfold dispose.
  destruct d.
  - pose proof (E_put _ _ (h_keepalive h) (h_body h) G) as X. destruct (after_body _ _ _ _); exact X.
  - destruct (bool_dec rc true) as [Erc|Erc]; [rewrite Erc|apply not_true_is_false in Erc; rewrite Erc].
    { pose proof (flight_close _ _ G) as Gc. destruct (close_conn (unlease st (h_conn h)) (h_conn h)) as [st1 c1].
      apply end_put_some. exact Gc. }
    destruct (h_keepalive h).
    + apply end_put_some. eapply flight_same; [exact G | reflexivity | reflexivity].
    + (* the response's socket is closed when the response is dropped *)
      pose proof (flight_close _ _ G) as Gc. unfold close_conn in Gc. unfold close_sock.
      destruct (c_sock (h_conn h)); cbn [fst snd] in Gc; apply end_put_some; exact Gc.
  - pose proof (E_put _ _ (h_keepalive h) (h_body h) G) as X. destruct (after_body _ _ _ _); exact X.
  - pose proof (flight_close _ _ G) as Gc. destruct (close_conn (unlease st (h_conn h)) (h_conn h)) as [st1 c1].
    apply end_lease. exact Gc.
  - pose proof (flight_close _ _ G) as Gc. destruct (close_conn (unlease st (h_conn h)) (h_conn h)) as [st1 c1].
    apply end_put_some. exact Gc.
Qed.

Variable mkdefault : retries_arg -> retry.

Theorem run_history_inv reqs script st :
  Inv st -> Inv (fst (run_history M B L to_ssl to_protocol ce re rac mkdefault rc reqs script st)).
Proof.
  revert script st. induction reqs as [|rq more IH]; intros script st H; cbn [run_history]; [exact H|].
  pose proof (urlopen_inv script st rq (mkdefault (rq_retries rq)) H) as P.
  destruct (urlopen script st rq (mkdefault (rq_retries rq))) as [[[st1 res] h] script1]. destruct P as [P1 P2].
  assert (H2 : Inv (match h with Some hd => dispose M rc st1 hd (rq_disposal rq) | None => st1 end)).
  { destruct h as [hd|]; [apply dispose_inv; [exact P1 | apply P2; reflexivity] | exact P1]. }
  specialize (IH script1 _ H2).
  destruct (run_history M B L to_ssl to_protocol ce re rac mkdefault rc more script1 _) as [st3 rs]. exact IH.
Qed.
End U.

(* ---------- what the invariant says at a quiescent point ---------- *)
Theorem slots_conserved st :
  Inv st -> (length (p_q st) <= M) /\
  (p_leases st = [] -> length (p_q st) = M) /\
  (B = true -> length (p_q st) + length (p_leases st) = M).
Proof.
  intros [g1 g2 _ _ _ _ _ _]. split; [assumption|]. simpl in g2. split.
  - intros E. rewrite E in g2. simpl in g2. destruct (B); lia.
  - intros E. rewrite E in g2. lia.
Qed.

Theorem no_dup_conn st : Inv st -> NoDup (map c_id (qconns (p_q st) ++ p_leases st)).
Proof. intros [_ _ g3 _ _ _ _ _]. rewrite tracked_none in g3. exact g3. Qed.

(* when no response owns a connection, every open socket is idle in the pool *)
Theorem nonidle_sockets_closed st :
  Inv st -> p_leases st = [] -> forall s, In s (p_open st) -> In s (socks_of (qconns (p_q st))).
Proof.
  intros [_ _ _ _ g5 _ _ _] E s Hs. specialize (g5 s Hs). rewrite tracked_none in g5. unfold base in g5.
  rewrite E, app_nil_r in g5. exact g5.
Qed.

Lemma socks_of_length l : length (socks_of l) <= length l.
Proof. induction l as [|c l IH]; simpl; [lia|]. destruct (c_sock c); simpl; lia. Qed.

Lemma NoDup_incl_len (a b : list nat) : NoDup a -> incl a b -> length a <= length b.
Proof. apply NoDup_incl_length. Qed.

Theorem block_bound st : Inv st -> B = true -> length (p_open st) <= M.
Proof.
  intros [g1 g2 g3 g4 g5 g6 g7 g8] Eb. rewrite Eb in g2. simpl in g2. rewrite tracked_none in *.
  eapply Nat.le_trans; [apply (NoDup_incl_len _ (socks_of (base st)) g6); exact g5|].
  eapply Nat.le_trans; [apply socks_of_length|]. unfold base. rewrite app_length.
  pose proof (qconns_length (p_q st)). lia.
Qed.
End Params.
