(* C16: representation invariant of the HTTPHeaderDict model, preserved by every
   operation, for every lower-casing function. *)
From Coq Require Import String List NArith Bool Lia.
From V Require Import lib.PyStr model.HeaderDict.
Import ListNotations.

Section Inv.
Variable lower : str -> str.

Notation find := (@HeaderDict.find).
Definition keys (d : hd) : list str := map e_key d.

Definition entry_ok (e : entry) : Prop := e_key e = lower (e_name e) /\ e_vals e <> [].
Definition Inv (d : hd) : Prop := NoDup (keys d) /\ Forall entry_ok d.

Lemma Inv_nil : Inv [].
Proof. split; constructor. Qed.

Lemma Inv_cons e d : Inv (e :: d) <-> (~ In (e_key e) (keys d) /\ entry_ok e /\ Inv d).
Proof.
  unfold Inv; simpl; split.
  - intros [Hn Hf]. inversion Hn; subst. inversion Hf; subst. tauto.
  - intros (Hni & Hok & Hn & Hf). split; constructor; assumption.
Qed.

Lemma find_some k d e : find k d = Some e -> In e d /\ e_key e = k.
Proof.
  induction d as [|x d IH]; simpl; [discriminate|].
  destruct (str_eqb k (e_key x)) eqn:E.
  - intros [= ->]. apply str_eqb_eq in E. auto.
  - intros H. apply IH in H. tauto.
Qed.

Lemma find_none k d : find k d = None <-> ~ In k (keys d).
Proof.
  induction d as [|x d IH]; simpl; [tauto|].
  destruct (str_eqb k (e_key x)) eqn:E.
  - apply str_eqb_eq in E. split; [discriminate | intros H; exfalso; apply H; auto].
  - apply str_eqb_neq in E. rewrite IH. split; [intros H [H1|H1]; congruence | tauto].
Qed.

Lemma find_in_ok k d e : Inv d -> find k d = Some e -> entry_ok e.
Proof.
  intros [_ Hf] H. apply find_some in H as [Hin _].
  rewrite Forall_forall in Hf. auto.
Qed.

Lemma keys_set_entry k n v d :
  keys (set_entry k n v d) = if mem_str k (keys d) then keys d else keys d ++ [k].
Proof.
  induction d as [|x d IH]; simpl; [reflexivity|].
  destruct (str_eqb k (e_key x)) eqn:E; simpl.
  - apply str_eqb_eq in E. subst. reflexivity.
  - rewrite IH. unfold mem_str. destruct (existsb _ _); reflexivity.
Qed.

Lemma mem_str_In x l : mem_str x l = true <-> In x l.
Proof.
  unfold mem_str. rewrite existsb_exists. split.
  - intros (y & Hy & E). apply str_eqb_eq in E. subst. assumption.
  - intros H. exists x. split; [assumption | apply str_eqb_refl].
Qed.

Lemma set_entry_forall (P : entry -> Prop) k n v d :
  Forall P d -> P (mkE k n v) -> Forall P (set_entry k n v d).
Proof.
  intros Hf Hp. induction Hf as [|x d Hx Hf IH]; simpl.
  - constructor; [assumption | constructor].
  - destruct (str_eqb k (e_key x)); constructor; assumption.
Qed.

Lemma NoDup_snoc {A} (l : list A) x : NoDup l -> ~ In x l -> NoDup (l ++ [x]).
Proof.
  induction l as [|y l IH]; simpl; intros Hn Hx.
  - repeat constructor. tauto.
  - inversion Hn; subst. constructor.
    + rewrite in_app_iff. simpl. intros [H|[H|[]]]; [tauto | subst; tauto].
    + apply IH; tauto.
Qed.

Lemma Inv_set_entry k n v d :
  Inv d -> k = lower n -> v <> [] -> Inv (set_entry k n v d).
Proof.
  intros [Hn Hf] Hk Hv. split.
  - rewrite keys_set_entry.
    destruct (mem_str k (keys d)) eqn:E; [assumption|].
    apply NoDup_snoc; [assumption|].
    intros Hx. apply mem_str_In in Hx. congruence.
  - apply set_entry_forall; [assumption|]. split; simpl; assumption.
Qed.

Lemma keys_remove_incl k d x : In x (keys (remove k d)) -> In x (keys d).
Proof.
  induction d as [|e d IH]; simpl; [tauto|].
  destruct (str_eqb k (e_key e)); simpl; tauto.
Qed.

Lemma Inv_remove k d : Inv d -> Inv (remove k d).
Proof.
  induction d as [|e d IH]; simpl; intros H; [assumption|].
  apply Inv_cons in H as (Hni & Hok & Hd).
  destruct (str_eqb k (e_key e)); [assumption|].
  apply Inv_cons. split; [|split; [assumption | apply IH; assumption]].
  intros Hx. apply Hni. eapply keys_remove_incl; eassumption.
Qed.

Lemma Inv_setitem k v d : Inv d -> Inv (setitem lower k v d).
Proof. intros H. apply Inv_set_entry; [assumption | reflexivity | discriminate]. Qed.

Lemma Inv_delitem k d d' : Inv d -> delitem lower k d = Some d' -> Inv d'.
Proof.
  unfold delitem. destruct (find (lower k) d); [|discriminate].
  intros H [= <-]. apply Inv_remove; assumption.
Qed.

Lemma Inv_discard k d : Inv d -> Inv (discard lower k d).
Proof.
  unfold discard. intros H. destruct (delitem lower k d) eqn:E; [|assumption].
  eapply Inv_delitem; eassumption.
Qed.

Lemma combine_last_nonnil vals v : vals <> [] -> combine_last vals v <> [].
Proof.
  destruct vals as [|x [|y r]]; simpl; [congruence | discriminate | discriminate].
Qed.

Lemma Inv_app_new d k n v :
  Inv d -> ~ In k (keys d) -> k = lower n -> v <> [] -> Inv (d ++ [mkE k n v]).
Proof.
  intros [Hn Hf] Hni Hk Hv. split.
  - unfold keys. rewrite map_app. simpl. apply NoDup_snoc; assumption.
  - apply Forall_app. split; [assumption|]. constructor; [|constructor]. split; assumption.
Qed.

Lemma Inv_add k v c d : Inv d -> Inv (add lower k v c d).
Proof.
  intros H. unfold add. destruct (find (lower k) d) as [e|] eqn:E.
  - pose proof (find_in_ok _ _ _ H E) as [Hk Hv].
    apply find_some in E as [_ Hke].
    apply Inv_set_entry; [assumption | congruence |].
    destruct c; [apply combine_last_nonnil; assumption|].
    destruct (e_vals e); simpl; discriminate.
  - apply find_none in E. apply Inv_app_new; [assumption | assumption | reflexivity | discriminate].
Qed.

Lemma Inv_add_all l d : Inv d -> Inv (add_all lower l d).
Proof.
  unfold add_all. revert d. induction l as [|kv l IH]; simpl; intros d H; [assumption|].
  apply IH. apply Inv_add. assumption.
Qed.

Lemma Inv_set_all l d : Inv d -> Inv (set_all lower l d).
Proof.
  unfold set_all. revert d. induction l as [|kv l IH]; simpl; intros d H; [assumption|].
  apply IH. apply Inv_setitem. assumption.
Qed.

(* every stored name finds its own entry *)
Lemma find_name d e : Inv d -> In e d -> find (lower (e_name e)) d = Some e.
Proof.
  induction d as [|x d IH]; simpl; intros H Hin; [contradiction|].
  apply Inv_cons in H as (Hni & Hok & Hd).
  destruct Hin as [->|Hin].
  - destruct Hok as [Hk _]. rewrite <- Hk, str_eqb_refl. reflexivity.
  - destruct (str_eqb (lower (e_name e)) (e_key x)) eqn:E.
    + exfalso. apply str_eqb_eq in E. apply Hni. rewrite <- E.
      destruct Hd as [_ Hf]. rewrite Forall_forall in Hf. destruct (Hf _ Hin) as [Hk _].
      rewrite <- Hk. apply in_map. assumption.
    + apply IH; assumption.
Qed.

Lemma getlist_name_nonnil d e : Inv d -> In e d -> getlist lower (e_name e) d <> [].
Proof.
  intros H Hin. unfold getlist. rewrite (find_name _ _ H Hin).
  destruct H as [_ Hf]. rewrite Forall_forall in Hf. apply (Hf _ Hin).
Qed.

Lemma Inv_copy_from_gen other ns d :
  Inv other -> Inv d -> (forall n, In n ns -> exists e, In e other /\ e_name e = n) ->
  Inv (fold_left (fun d n => set_entry (lower n) n (getlist lower n other) d) ns d).
Proof.
  intros Ho. revert d. induction ns as [|n ns IH]; simpl; intros d Hd Hns; [assumption|].
  apply IH; [|intros; apply Hns; auto].
  destruct (Hns n (or_introl eq_refl)) as (e & Hin & <-).
  apply Inv_set_entry; [assumption | reflexivity | apply getlist_name_nonnil; assumption].
Qed.

Lemma Inv_copy_from other d : Inv other -> Inv d -> Inv (copy_from lower other d).
Proof.
  intros Ho Hd. unfold copy_from. apply Inv_copy_from_gen; try assumption.
  unfold names. intros n Hn. apply in_map_iff in Hn as (e & He & Hin). eauto.
Qed.

Lemma Inv_copy d : Inv d -> Inv (copy lower d).
Proof. intros H. apply Inv_copy_from; [assumption | apply Inv_nil]. Qed.

Definition SInv (st : store) : Prop := Forall Inv st.

Lemma SInv_get st o : SInv st -> Inv (get_obj st o).
Proof.
  unfold get_obj. intros H. revert o. induction H as [|d st Hd H IH]; intros [|o]; simpl;
    try apply Inv_nil; auto.
Qed.

Lemma SInv_set st o d : SInv st -> Inv d -> SInv (set_obj st o d).
Proof.
  intros H Hd. revert o. induction H as [|x st Hx H IH]; intros [|o]; simpl;
    constructor; auto; apply IH.
Qed.

Lemma SInv_snoc st d : SInv st -> Inv d -> SInv (st ++ [d]).
Proof. intros H Hd. apply Forall_app. split; [assumption | constructor; [assumption | constructor]]. Qed.

Lemma Inv_extend st s d d' : SInv st -> Inv d -> extend lower st s d = Some d' -> Inv d'.
Proof.
  intros Hs Hd. destruct s as [l|l|o]; simpl.
  - intros [= <-]. apply Inv_add_all; assumption.
  - intros [= <-]. apply Inv_add_all; assumption.
  - destruct (iteritems lower (get_obj st o)); [|discriminate].
    intros [= <-]. apply Inv_add_all; assumption.
Qed.

Lemma Inv_construct st s d : SInv st -> construct lower st s = Some d -> Inv d.
Proof.
  intros Hs. destruct s as [l|l|o]; simpl.
  - intros [= <-]. apply Inv_add_all, Inv_nil.
  - intros [= <-]. apply Inv_add_all, Inv_nil.
  - intros [= <-]. apply Inv_copy_from; [apply SInv_get; assumption | apply Inv_nil].
Qed.

Lemma Inv_update_fold other ns acc d' :
  (forall d, acc = Some d -> Inv d) ->
  fold_left (fun acc n =>
        match acc, getitem lower n other with
        | Some d', Some v => Some (setitem lower n v d')
        | _, _ => None
        end) ns acc = Some d' -> Inv d'.
Proof.
  revert acc. induction ns as [|n ns IH]; simpl; intros acc Hacc.
  - intros H. apply Hacc. assumption.
  - apply IH. intros d. destruct acc as [d0|]; [|discriminate].
    destruct (getitem lower n other); [|discriminate].
    intros [= <-]. apply Inv_setitem. apply Hacc. reflexivity.
Qed.

Lemma Inv_update st s d d' : SInv st -> Inv d -> update lower st s d = Some d' -> Inv d'.
Proof.
  intros Hs Hd. destruct s as [l|l|o]; simpl.
  - intros [= <-]. apply Inv_set_all; assumption.
  - intros [= <-]. apply Inv_set_all; assumption.
  - apply Inv_update_fold. intros d0 [= <-]. assumption.
Qed.

Lemma Inv_popitem d n v d' : Inv d -> popitem lower d = Some (n, v, d') -> Inv d'.
Proof.
  unfold popitem. destruct (names d) as [|m ms]; [discriminate|].
  destruct (getitem lower m d); [|discriminate].
  destruct (delitem lower m d) eqn:E; [|discriminate].
  intros H [= _ _ <-]. eapply Inv_delitem; eassumption.
Qed.

Lemma Inv_clear_go fuel d : Inv d -> Inv (clear_go lower fuel d).
Proof.
  revert d. induction fuel as [|f IH]; simpl; intros d H; [assumption|].
  destruct (popitem lower d) as [[[n v] d']|] eqn:E; [|assumption].
  apply IH. eapply Inv_popitem; eassumption.
Qed.

Lemma Inv_prepare d : Inv d -> Inv (prepare_for_method_change lower d).
Proof.
  unfold prepare_for_method_change. generalize content_specific_headers as l.
  intros l. revert d. induction l as [|h l IH]; simpl; intros d H; [assumption|].
  apply IH. apply Inv_discard. assumption.
Qed.

Lemma SInv_step st p : SInv st -> SInv (fst (step lower st p)).
Proof.
  intros H. pose proof (SInv_get st) as G.
  destruct p; simpl.
  - apply SInv_set; [assumption | apply Inv_setitem; auto].
  - destruct (delitem lower k (get_obj st o)) eqn:E; simpl; [|assumption].
    apply SInv_set; [assumption | eapply Inv_delitem; [apply G; assumption | eassumption]].
  - apply SInv_set; [assumption | apply Inv_add; auto].
  - destruct (extend lower st s (get_obj st o)) eqn:E; simpl; [|assumption].
    apply SInv_set; [assumption | eapply Inv_extend; [eassumption | apply G; assumption | eassumption]].
  - destruct (update lower st s (get_obj st o)) eqn:E; simpl; [|assumption].
    apply SInv_set; [assumption | eapply Inv_update; [eassumption | apply G; assumption | eassumption]].
  - destruct (getitem lower k (get_obj st o)); simpl; [assumption|].
    apply SInv_set; [assumption | apply Inv_setitem; auto].
  - destruct (getitem lower k (get_obj st o)); simpl.
    + apply SInv_set; [assumption | apply Inv_discard; auto].
    + destruct default; assumption.
  - destruct (names (get_obj st o)); simpl; [assumption|].
    destruct (popitem lower (get_obj st o)) as [[[n v] d']|] eqn:E; simpl; [|assumption].
    apply SInv_set; [assumption | eapply Inv_popitem; [apply G; assumption | eassumption]].
  - apply SInv_set; [assumption | apply Inv_discard; auto].
  - apply SInv_set; [assumption | apply Inv_clear_go; auto].
  - apply SInv_snoc; [assumption | apply Inv_copy; auto].
  - destruct (construct lower st s) eqn:E; simpl; [|assumption].
    apply SInv_snoc; [assumption | eapply Inv_construct; eassumption].
  - destruct (extend lower st s (copy lower (get_obj st o))) eqn:E; simpl; [|assumption].
    apply SInv_snoc; [assumption|]. eapply Inv_extend; [eassumption | apply Inv_copy; auto | eassumption].
  - destruct (extend lower st s (get_obj st o)) eqn:E; simpl; [|assumption].
    apply SInv_set; [assumption | eapply Inv_extend; [eassumption | apply G; assumption | eassumption]].
  - destruct (construct lower st s) eqn:E; simpl; [|assumption].
    destruct (iteritems lower (get_obj st o)) eqn:E2; simpl; [|assumption].
    apply SInv_snoc; [assumption|].
    apply Inv_add_all. eapply Inv_construct; eassumption.
  - apply SInv_set; [assumption | apply Inv_prepare; auto].
Qed.

Theorem run_ops_inv ops st : SInv st -> SInv (run_ops lower ops st).
Proof.
  unfold run_ops. revert st. induction ops as [|p ops IH]; simpl; intros st H; [assumption|].
  apply IH. apply SInv_step. assumption.
Qed.

End Inv.
