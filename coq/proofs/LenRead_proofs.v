(* C13, Content-Length framing: a body that stops short of its declared length never ends normally, whatever the read
   pattern; a body that is all there reads back exactly. *)
From Coq Require Import List Arith Bool Lia.
From V Require Import model.LenRead.
Import ListNotations.

Lemma is_nil_true : forall l : list nat, is_nil l = true -> l = [].
Proof. intros [|x l] H; [reflexivity|discriminate]. Qed.
Lemma is_nil_false : forall l : list nat, l <> [] -> is_nil l = false.
Proof. intros [|x l] H; [congruence|reflexivity]. Qed.
Lemma firstn_nonnil : forall (l : list nat) n, 1 <= n -> l <> [] -> firstn n l <> [].
Proof. intros [|x l] [|n] Hn Hl; try lia; try congruence. cbn. discriminate. Qed.
Lemma firstn_split : forall (l : list nat) a b, firstn (a + b) l = firstn a l ++ firstn b (skipn a l).
Proof.
  induction l as [|x l IH]; intros a b.
  - rewrite skipn_nil, !firstn_nil. reflexivity.
  - destruct a as [|a]; [reflexivity|]. cbn. rewrite IH. reflexivity.
Qed.

(* what matters of the state *)
Definition measure (s : st) : nat := length (sock s) + length (buf s).

(* ---------------------------------------------------------------- a cut body *)
(* fewer bytes are left before EOF than the length still expected *)
Definition cut (s : st) : Prop := lrem s = hlen s /\ length (sock s) < hlen s /\ fp_open s = true /\ io_closed s = false.

Lemma raw_read_cut : forall s a, cut s -> 1 <= a ->
  (exists d s1, raw_read true s (Some a) = (RData d, s1) /\ d <> [] /\ cut s1 /\ buf s1 = buf s /\ sock s = d ++ sock s1)
  \/ (exists s1, raw_read true s (Some a) = (RIncomplete, s1)).
Proof.
  intros [sk h fo ic lr bf] a (Hl & Hs & Hf & Hi) Ha; cbn in *. subst lr fo ic.
  unfold raw_read, hc_read; cbn [io_closed fp_open negb sock hlen lrem buf].
  remember (Nat.min a h) as a' eqn:Ea. assert (Ha' : 1 <= a') by lia.
  destruct sk as [|x r].
  - right. rewrite firstn_nil. cbn [is_nil andb]. replace (Nat.eqb a' 0) with false by (symmetry; apply Nat.eqb_neq; lia).
    cbn [negb]. replace (Nat.eqb a 0) with false by (symmetry; apply Nat.eqb_neq; lia). cbn [negb andb is_nil lrem].
    replace (Nat.eqb h 0) with false by (symmetry; apply Nat.eqb_neq; cbn in Hs; lia). cbn. eexists. reflexivity.
  - left. destruct a' as [|n]; [lia|]. cbn [firstn is_nil andb].
    replace (Nat.eqb a 0) with false by (symmetry; apply Nat.eqb_neq; lia). cbn [negb andb].
    eexists. eexists. split; [reflexivity|]. split; [discriminate|]. cbn [sock hlen lrem fp_open io_closed buf].
    pose proof (firstn_length n r) as Hfl. pose proof (skipn_length n r) as Hsl. cbn [length] in *.
    split; [|split; [reflexivity|]].
    + unfold cut; cbn [sock hlen lrem fp_open io_closed]. cbn [length skipn]. split; [reflexivity|]. split; [lia|]. split; [|reflexivity].
      apply negb_true_iff. apply Nat.eqb_neq. lia.
    + cbn [skipn]. rewrite <- app_comm_cons. rewrite firstn_skipn. reflexivity.
Qed.

Lemma raw_read_cut_none : forall s, cut s -> exists s1, raw_read true s None = (RProtocol, s1).
Proof.
  intros [sk h fo ic lr bf] (Hl & Hs & Hf & Hi); cbn in *. subst lr fo ic.
  unfold raw_read, hc_read; cbn [io_closed fp_open negb sock hlen lrem buf].
  replace (Nat.ltb (length (firstn h sk)) h) with true by (symmetry; apply Nat.ltb_lt; rewrite firstn_length; lia).
  eexists. reflexivity.
Qed.

Definition with_buf (s : st) (b : list nat) : st := mkSt (sock s) (hlen s) (fp_open s) (io_closed s) (lrem s) b.
Lemma cut_with_buf : forall s b, cut s -> cut (with_buf s b).
Proof. intros s b H. exact H. Qed.

Lemma refill_unfold : forall enforce f s a last, refill enforce (S f) s a last =
  if Nat.ltb (length (buf s)) a && negb (is_nil last)
  then match raw_read enforce s (Some a) with
       | (RData d, s1) => refill enforce f (with_buf s1 (buf s1 ++ d)) a d
       | (e, s1) => (e, s1)
       end
  else (RData (firstn a (buf s)), with_buf s (skipn a (buf s))).
Proof. reflexivity. Qed.

Lemma refill_cut : forall fuel s a last, cut s -> 1 <= a -> buf s <> [] -> length (sock s) < fuel ->
  (exists d s1, refill true fuel s a last = (RData d, s1) /\ d <> [] /\ cut s1 /\ measure s1 < measure s /\
                buf s ++ sock s = d ++ buf s1 ++ sock s1)
  \/ (exists s1, refill true fuel s a last = (RIncomplete, s1)).
Proof.
  induction fuel as [|f IH]; intros s a last Hc Ha Hb Hf; [lia|].
  rewrite refill_unfold. destruct (Nat.ltb (length (buf s)) a && negb (is_nil last)) eqn:Hcond.
  - destruct (raw_read_cut s a Hc Ha) as [(d & s1 & Hr & Hd & Hc1 & Hb1 & Hs1)|(s1 & Hr)]; rewrite Hr; [|right; eauto].
    assert (Hlen : length (sock s) = length d + length (sock s1)) by (rewrite Hs1, app_length; reflexivity).
    assert (Hdl : 1 <= length d) by (destruct d; [congruence|cbn; lia]).
    destruct (IH (with_buf s1 (buf s1 ++ d)) a d (cut_with_buf _ _ Hc1) Ha) as [(d2 & s2 & Hr2 & Hd2 & Hc2 & Hm2 & He2)|(s2 & Hr2)].
    + cbn [buf with_buf]. destruct (buf s1); [destruct d; [congruence|discriminate]|discriminate].
    + cbn [sock with_buf]. lia.
    + left. exists d2, s2. split; [exact Hr2|]. split; [exact Hd2|]. split; [exact Hc2|]. split.
      * unfold measure in *. cbn [sock buf with_buf] in Hm2. rewrite app_length in Hm2. rewrite Hb1 in Hm2. lia.
      * cbn [sock buf with_buf] in He2. rewrite <- He2, Hb1, Hs1, app_assoc. reflexivity.
    + right. eauto.
  - left. exists (firstn a (buf s)), (with_buf s (skipn a (buf s))). split; [reflexivity|].
    split; [apply firstn_nonnil; assumption|]. split; [apply cut_with_buf; exact Hc|].
    unfold measure; cbn [sock buf with_buf]. split.
    + rewrite skipn_length. destruct (buf s); [congruence|cbn [length]; lia].
    + rewrite app_assoc, firstn_skipn. reflexivity.
Qed.

Lemma read_cut : forall dc s a, cut s -> 1 <= a -> (dc = false -> buf s = []) ->
  (exists d s1, read true dc s (Some a) = (RData d, s1) /\ d <> [] /\ cut s1 /\ (dc = false -> buf s1 = []) /\
                measure s1 < measure s /\ buf s ++ sock s = d ++ buf s1 ++ sock s1)
  \/ (exists s1, read true dc s (Some a) = (RIncomplete, s1)).
Proof.
  intros dc s a Hc Ha Hdc. unfold read. destruct (Nat.leb a (length (buf s))) eqn:Hle.
  - apply Nat.leb_le in Hle. left. eexists. eexists. split; [reflexivity|].
    assert (Hb : buf s <> []) by (destruct (buf s); [cbn in Hle; lia|discriminate]).
    split; [apply firstn_nonnil; assumption|]. split; [exact Hc|]. cbn [sock buf]. split.
    + intros E. rewrite (Hdc E) in Hb. congruence.
    + unfold measure; cbn [sock buf]. rewrite skipn_length. split; [lia|]. rewrite app_assoc, firstn_skipn. reflexivity.
  - destruct (raw_read_cut s a Hc Ha) as [(d & s1 & Hr & Hd & Hc1 & Hb1 & Hs1)|(s1 & Hr)]; rewrite Hr; [|right; eauto].
    rewrite (is_nil_false d Hd). cbn [andb].
    assert (Hdl : 1 <= length d) by (destruct d; [congruence|cbn; lia]).
    assert (Hlen : length (sock s) = length d + length (sock s1)) by (rewrite Hs1, app_length; reflexivity).
    destruct dc; cbn [negb].
    + destruct (refill_cut (S (S (length (sock s1)))) (with_buf s1 (buf s1 ++ d)) a d (cut_with_buf _ _ Hc1) Ha)
        as [(d2 & s2 & Hr2 & Hd2 & Hc2 & Hm2 & He2)|(s2 & Hr2)].
      * cbn [buf with_buf]. destruct (buf s1); [destruct d; [congruence|discriminate]|discriminate].
      * cbn [sock with_buf]. lia.
      * left. exists d2, s2. change (mkSt (sock s1) (hlen s1) (fp_open s1) (io_closed s1) (lrem s1) (buf s1 ++ d)) with (with_buf s1 (buf s1 ++ d)).
        split; [exact Hr2|]. split; [exact Hd2|]. split; [exact Hc2|]. split; [|split].
        -- intros E; discriminate.
        -- unfold measure in *. cbn [sock buf with_buf] in Hm2. rewrite app_length, Hb1 in Hm2. lia.
        -- cbn [sock buf with_buf] in He2. rewrite <- He2, Hb1, Hs1, app_assoc. reflexivity.
      * right. exists s2. exact Hr2.
    + left. exists d, s1. split; [reflexivity|]. split; [exact Hd|]. split; [exact Hc1|]. split; [|split].
      * intros _. rewrite Hb1. apply Hdc. reflexivity.
      * unfold measure. rewrite Hb1. lia.
      * rewrite Hb1, (Hdc eq_refl), Hs1. reflexivity.
Qed.

Lemma read_n_cut : forall dc fuel s a, cut s -> 1 <= a -> (dc = false -> buf s = []) -> measure s < fuel ->
  exists ps s1, read_n_loop true dc fuel s a = (ps, EIncomplete, s1) /\ exists rest, buf s ++ sock s = concat ps ++ rest.
Proof.
  induction fuel as [|f IH]; intros s a Hc Ha Hdc Hm; [lia|]. cbn [read_n_loop].
  destruct (read_cut dc s a Hc Ha Hdc) as [(d & s1 & Hr & Hd & Hc1 & Hdc1 & Hm1 & He)|(s1 & Hr)]; rewrite Hr.
  - destruct d as [|x d]; [congruence|].
    destruct (IH s1 a Hc1 Ha Hdc1 ltac:(lia)) as (ps & s2 & Hl & rest & Hrest). rewrite Hl.
    eexists. eexists. split; [reflexivity|]. exists rest. cbn [concat]. rewrite He, Hrest, app_assoc. reflexivity.
  - eexists. eexists. split; [reflexivity|]. exists (buf s ++ sock s). reflexivity.
Qed.

Lemma stream_cut : forall dc fuel s a, cut s -> 1 <= a -> (dc = false -> buf s = []) -> measure s < fuel ->
  exists ps s1, stream_loop true dc fuel s a = (ps, EIncomplete, s1) /\ exists rest, buf s ++ sock s = concat ps ++ rest.
Proof.
  induction fuel as [|f IH]; intros s a Hc Ha Hdc Hm; [lia|]. cbn [stream_loop].
  assert (Hopen : fp_open s = true) by (destruct Hc as (_ & _ & H & _); exact H). rewrite Hopen. cbn [orb].
  destruct (read_cut dc s a Hc Ha Hdc) as [(d & s1 & Hr & Hd & Hc1 & Hdc1 & Hm1 & He)|(s1 & Hr)]; rewrite Hr.
  - destruct (IH s1 a Hc1 Ha Hdc1 ltac:(lia)) as (ps & s2 & Hl & rest & Hrest). rewrite Hl. rewrite (is_nil_false d Hd).
    eexists. eexists. split; [reflexivity|]. exists rest. cbn [concat]. rewrite He, Hrest, app_assoc. reflexivity.
  - eexists. eexists. split; [reflexivity|]. exists (buf s ++ sock s). reflexivity.
Qed.

Definition amt_ok (ap : api) : Prop := match ap with ARead => True | AReadN n | AStream n => 1 <= n end.

Theorem cut_never_complete_len : forall dc body content_length ap,
  length body < content_length -> amt_ok ap ->
  exists ps e, run_api true dc body content_length ap = (ps, e) /\ (e = EIncomplete \/ e = EProtocol) /\
               exists rest, body = concat ps ++ rest.
Proof.
  intros dc body L ap Hlen Hap.
  assert (Hc : cut (init body L)) by (unfold cut, init; cbn; repeat split; lia).
  unfold run_api. destruct ap as [|n|n]; cbn [amt_ok] in Hap.
  - unfold read. destruct (raw_read_cut_none _ Hc) as (s1 & Hr). rewrite Hr. cbn [ending_of].
    exists [], EProtocol. split; [reflexivity|]. split; [right; reflexivity|]. exists body. reflexivity.
  - destruct (read_n_cut dc (S (S (length body))) (init body L) n Hc Hap (fun _ => eq_refl))
      as (ps & s1 & Hl & rest & Hrest); [unfold measure, init; cbn; lia|].
    rewrite Hl. exists ps, EIncomplete. split; [reflexivity|]. split; [left; reflexivity|]. exists rest. exact Hrest.
  - destruct (stream_cut dc (S (S (length body))) (init body L) n Hc Hap (fun _ => eq_refl))
      as (ps & s1 & Hl & rest & Hrest); [unfold measure, init; cbn; lia|].
    rewrite Hl. exists ps, EIncomplete. split; [reflexivity|]. split; [left; reflexivity|]. exists rest. exact Hrest.
Qed.

(* ---------------------------------------------------------------- a body that is all there *)
Definition ok (s : st) : Prop :=
  lrem s = hlen s /\ hlen s <= length (sock s) /\ (fp_open s = false -> hlen s = 0) /\ (io_closed s = true -> hlen s = 0).
(* the bytes still to be delivered *)
Definition remaining (s : st) : list nat := buf s ++ firstn (hlen s) (sock s).

Lemma raw_read_ok : forall s a, ok s -> 1 <= a ->
  exists d s1, raw_read true s (Some a) = (RData d, s1) /\ ok s1 /\ buf s1 = buf s /\
               firstn (hlen s) (sock s) = d ++ firstn (hlen s1) (sock s1) /\ length (sock s1) + length d = length (sock s) /\
               (d = [] -> hlen s = 0 /\ fp_open s1 = false).
Proof.
  intros [sk h fo ic lr bf] a (Hl & Hs & Hf & Hi) Ha; cbn in *. subst lr.
  unfold raw_read, hc_read; cbn [io_closed fp_open negb sock hlen lrem buf].
  assert (Ea : Nat.eqb a 0 = false) by (apply Nat.eqb_neq; lia).
  destruct ic.
  - rewrite (Hi eq_refl) in *. rewrite Ea. cbn [negb andb is_nil lrem sock hlen buf]. cbn.
    eexists. eexists. split; [reflexivity|]. unfold ok; cbn. repeat split; auto; lia.
  - destruct fo; cbn [negb].
    + remember (Nat.min a h) as a' eqn:Ea'.
      destruct (Nat.eq_dec h 0) as [Hz|Hnz].
      * subst h. replace a' with 0 by lia. cbn [firstn is_nil Nat.eqb negb andb length Nat.sub skipn].
        rewrite Ea. cbn [negb andb is_nil sock hlen lrem buf Nat.eqb]. cbn.
        eexists. eexists. split; [reflexivity|]. unfold ok; cbn. repeat split; auto; lia.
      * assert (Ha' : 1 <= a' <= h) by lia.
        assert (Hfl : length (firstn a' sk) = a') by (rewrite firstn_length; lia).
        assert (Hd : firstn a' sk <> []) by (intros E; rewrite E in Hfl; cbn in Hfl; lia).
        rewrite (is_nil_false _ Hd). cbn [andb]. rewrite Ea. cbn [negb andb]. rewrite (is_nil_false _ Hd).
        eexists. eexists. split; [reflexivity|]. cbn [sock hlen lrem fp_open io_closed buf].
        rewrite Hfl. pose proof (skipn_length a' sk) as Hsl.
        split; [unfold ok; cbn [sock hlen lrem fp_open io_closed]; repeat split; try lia|].
        -- intros E. apply negb_false_iff, Nat.eqb_eq in E. exact E.
        -- split; [reflexivity|]. split.
           ++ replace h with (a' + (h - a')) at 1 by lia. apply firstn_split.
           ++ split; [lia|]. intros E. congruence.
    + rewrite (Hf eq_refl) in *. rewrite Ea. cbn [negb andb is_nil lrem sock hlen buf]. cbn.
      eexists. eexists. split; [reflexivity|]. unfold ok; cbn. repeat split; auto; lia.
Qed.

Lemma ok_with_buf : forall s b, ok s -> ok (with_buf s b).
Proof. intros s b H. exact H. Qed.

Lemma refill_ok : forall fuel s a last, ok s -> 1 <= a -> buf s <> [] -> (last = [] -> hlen s = 0) ->
  (if is_nil last then 1 else length (sock s) + 2) <= fuel ->
  exists d s1, refill true fuel s a last = (RData d, s1) /\ ok s1 /\ d <> [] /\ remaining s = d ++ remaining s1 /\
               length (remaining s1) < length (remaining s).
Proof.
  induction fuel as [|f IH]; intros s a last Ho Ha Hb Hlast Hf; [destruct (is_nil last); lia|].
  rewrite refill_unfold. destruct (Nat.ltb (length (buf s)) a && negb (is_nil last)) eqn:Hcond.
  - apply andb_true_iff in Hcond. destruct Hcond as [_ Hln]. apply negb_true_iff in Hln. rewrite Hln in Hf.
    destruct (raw_read_ok s a Ho Ha) as (d & s1 & Hr & Ho1 & Hb1 & Hsp & Hlen & Hnil). rewrite Hr.
    destruct (IH (with_buf s1 (buf s1 ++ d)) a d (ok_with_buf _ _ Ho1) Ha) as (d2 & s2 & Hr2 & Ho2 & Hd2 & He2 & Hm2).
    + cbn [buf with_buf]. rewrite Hb1. destruct (buf s); [congruence|discriminate].
    + cbn [hlen with_buf]. intros E. destruct (Hnil E) as [Hz _].
      destruct Ho1 as (_ & Hle1 & _). rewrite Hz in Hsp. cbn in Hsp. rewrite E in Hsp. cbn in Hsp.
      destruct (hlen s1); [reflexivity|]. destruct (sock s1); [cbn in Hle1; lia|discriminate].
    + cbn [sock with_buf]. destruct (is_nil d) eqn:En; [lia|].
      assert (1 <= length d) by (destruct d; [discriminate|cbn; lia]). lia.
    + exists d2, s2. split; [exact Hr2|]. split; [exact Ho2|]. split; [exact Hd2|].
      unfold remaining in *. cbn [buf sock hlen with_buf] in He2, Hm2. split.
      * rewrite <- He2, Hb1, Hsp, app_assoc. reflexivity.
      * rewrite Hsp, <- Hb1. rewrite app_assoc. exact Hm2.
  - exists (firstn a (buf s)), (with_buf s (skipn a (buf s))). split; [reflexivity|]. split; [apply ok_with_buf; exact Ho|].
    split; [apply firstn_nonnil; assumption|]. unfold remaining; cbn [buf sock hlen with_buf]. split.
    + rewrite app_assoc, firstn_skipn. reflexivity.
    + rewrite !app_length, skipn_length. destruct (buf s); [congruence|cbn [length]; lia].
Qed.

Lemma read_ok : forall dc s a, ok s -> 1 <= a -> (dc = false -> buf s = []) ->
  exists d s1, read true dc s (Some a) = (RData d, s1) /\ ok s1 /\ (dc = false -> buf s1 = []) /\ remaining s = d ++ remaining s1 /\
               (d = [] -> remaining s = [] /\ fp_open s1 = false /\ buf s1 = []) /\
               (d <> [] -> length (remaining s1) < length (remaining s)).
Proof.
  intros dc s a Ho Ha Hdc. unfold read. destruct (Nat.leb a (length (buf s))) eqn:Hle.
  - apply Nat.leb_le in Hle.
    assert (Hb : buf s <> []) by (destruct (buf s); [cbn in Hle; lia|discriminate]).
    eexists. eexists. split; [reflexivity|]. split; [exact Ho|]. cbn [buf sock hlen]. split.
    + intros E. rewrite (Hdc E) in Hb. congruence.
    + unfold remaining; cbn [buf sock hlen]. split; [rewrite app_assoc, firstn_skipn; reflexivity|]. split.
      * intros E. exfalso. exact (firstn_nonnil _ _ Ha Hb E).
      * intros _. rewrite !app_length, skipn_length. lia.
  - destruct (raw_read_ok s a Ho Ha) as (d & s1 & Hr & Ho1 & Hb1 & Hsp & Hlen & Hnil). rewrite Hr.
    destruct (is_nil d && is_nil (buf s1)) eqn:Hnn.
    + apply andb_true_iff in Hnn. destruct Hnn as [Hd Hbn]. apply is_nil_true in Hd. apply is_nil_true in Hbn.
      destruct (Hnil Hd) as [Hz Hfp]. exists [], s1. split; [reflexivity|]. split; [exact Ho1|]. split; [intros _; exact Hbn|].
      unfold remaining. rewrite <- Hb1, Hbn, Hz. cbn. rewrite Hz in Hsp. cbn in Hsp. rewrite Hd in Hsp. cbn in Hsp.
      split; [exact Hsp|]. split; [auto|]. intros C; congruence.
    + destruct dc; cbn [negb].
      * change (mkSt (sock s1) (hlen s1) (fp_open s1) (io_closed s1) (lrem s1) (buf s1 ++ d)) with (with_buf s1 (buf s1 ++ d)).
        destruct (refill_ok (S (S (length (sock s1)))) (with_buf s1 (buf s1 ++ d)) a d (ok_with_buf _ _ Ho1) Ha)
          as (d2 & s2 & Hr2 & Ho2 & Hd2 & He2 & Hm2).
        -- cbn [buf with_buf]. intros E. apply app_eq_nil in E. destruct E as [E1 E2]. rewrite E1, E2 in Hnn. discriminate.
        -- cbn [hlen with_buf]. intros E. destruct (Hnil E) as [Hz _].
           destruct Ho1 as (_ & Hle1 & _). rewrite Hz in Hsp. cbn in Hsp. rewrite E in Hsp. cbn in Hsp.
           destruct (hlen s1); [reflexivity|]. destruct (sock s1); [cbn in Hle1; lia|discriminate].
        -- cbn [sock with_buf]. destruct (is_nil d); lia.
        -- exists d2, s2. split; [exact Hr2|]. split; [exact Ho2|]. split; [intros E; discriminate|].
           unfold remaining in *. cbn [buf sock hlen with_buf] in He2, Hm2. split; [|split].
           ++ rewrite <- He2, Hb1, Hsp, app_assoc. reflexivity.
           ++ intros E; congruence.
           ++ intros _. rewrite Hsp, <- Hb1, app_assoc. exact Hm2.
      * exists d, s1. split; [reflexivity|]. split; [exact Ho1|].
        assert (Hbe : buf s1 = []) by (rewrite Hb1; apply Hdc; reflexivity).
        split; [intros _; exact Hbe|]. unfold remaining. rewrite Hbe, <- Hb1, Hbe. cbn [app]. split; [exact Hsp|]. split.
        -- intros E. rewrite E, Hbe in Hnn. discriminate.
        -- intros Hd. rewrite Hsp, app_length. destruct d; [congruence|cbn; lia].
Qed.

Lemma read_n_ok : forall dc fuel s a, ok s -> 1 <= a -> (dc = false -> buf s = []) -> length (remaining s) < fuel ->
  exists ps s1, read_n_loop true dc fuel s a = (ps, Normal, s1) /\ concat ps = remaining s.
Proof.
  induction fuel as [|f IH]; intros s a Ho Ha Hdc Hm; [lia|]. cbn [read_n_loop].
  destruct (read_ok dc s a Ho Ha Hdc) as (d & s1 & Hr & Ho1 & Hdc1 & He & Hnil & Hdec). rewrite Hr.
  destruct d as [|x d].
  - destruct (Hnil eq_refl) as [Hrem _]. eexists. eexists. split; [reflexivity|]. rewrite Hrem. reflexivity.
  - assert (Hlt : length (remaining s1) < length (remaining s)) by (apply Hdec; discriminate).
    destruct (IH s1 a Ho1 Ha Hdc1 ltac:(lia)) as (ps & s2 & Hl & Hcat). rewrite Hl.
    eexists. eexists. split; [reflexivity|]. cbn [concat]. rewrite Hcat, He. reflexivity.
Qed.

Lemma stream_ok : forall dc fuel s a, ok s -> 1 <= a -> (dc = false -> buf s = []) -> length (remaining s) + 2 <= fuel ->
  exists ps s1, stream_loop true dc fuel s a = (ps, Normal, s1) /\ concat ps = remaining s.
Proof.
  induction fuel as [|f IH]; intros s a Ho Ha Hdc Hm; [lia|]. cbn [stream_loop].
  destruct (fp_open s || negb (is_nil (buf s))) eqn:Hcond.
  - destruct (read_ok dc s a Ho Ha Hdc) as (d & s1 & Hr & Ho1 & Hdc1 & He & Hnil & Hdec). rewrite Hr.
    destruct d as [|x d].
    + destruct (Hnil eq_refl) as (Hrem & Hfp & Hbuf).
      destruct f as [|f']; [lia|]. cbn [stream_loop]. rewrite Hfp, Hbuf. cbn [orb is_nil negb].
      eexists. eexists. split; [reflexivity|]. rewrite Hrem. reflexivity.
    + assert (Hlt : length (remaining s1) < length (remaining s)) by (apply Hdec; discriminate).
      destruct (IH s1 a Ho1 Ha Hdc1 ltac:(lia)) as (ps & s2 & Hl & Hcat). rewrite Hl. cbn [is_nil].
      eexists. eexists. split; [reflexivity|]. cbn [concat]. rewrite Hcat, He. reflexivity.
  - apply orb_false_iff in Hcond. destruct Hcond as [Hfp Hb]. apply negb_false_iff, is_nil_true in Hb.
    eexists. eexists. split; [reflexivity|]. unfold remaining. destruct Ho as (_ & _ & Hz & _). rewrite Hb, (Hz Hfp). reflexivity.
Qed.

Theorem complete_body_reads_back_len : forall dc body content_length ap,
  content_length <= length body -> amt_ok ap ->
  exists ps, run_api true dc body content_length ap = (ps, Normal) /\ concat ps = firstn content_length body.
Proof.
  intros dc body L ap Hlen Hap.
  assert (Ho : ok (init body L)) by (unfold ok, init; cbn; repeat split; try lia; intros; discriminate).
  assert (Hrem : remaining (init body L) = firstn L body) by reflexivity.
  assert (Hrl : length (firstn L body) = L) by (rewrite firstn_length; lia).
  unfold run_api. destruct ap as [|n|n]; cbn [amt_ok] in Hap.
  - unfold read, raw_read, hc_read, init; cbn [io_closed fp_open negb sock hlen lrem buf].
    replace (Nat.ltb (length (firstn L body)) L) with false by (symmetry; apply Nat.ltb_ge; lia).
    cbn [andb]. cbn. exists [firstn L body]. split; [reflexivity|]. cbn. apply app_nil_r.
  - destruct (read_n_ok dc (S (S (length body))) (init body L) n Ho Hap (fun _ => eq_refl)) as (ps & s1 & Hl & Hcat); [rewrite Hrem; lia|].
    rewrite Hl. exists ps. split; [reflexivity|]. rewrite Hcat. exact Hrem.
  - destruct (stream_ok dc (S (S (length body))) (init body L) n Ho Hap (fun _ => eq_refl)) as (ps & s1 & Hl & Hcat); [rewrite Hrem; lia|].
    rewrite Hl. exists ps. split; [reflexivity|]. rewrite Hcat. exact Hrem.
Qed.
