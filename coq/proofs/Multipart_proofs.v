(* C20: escaping is safe; the strict parser reads back exactly the fields. *)
From Coq Require Import String List NArith Bool Arith Lia.
From V Require Import lib.PyStr lib.Utf8 model.Multipart.
Import ListNotations.
Local Open Scope N_scope.

(* ---------------- escaping ---------------- *)
Lemma esc_cp_safe c b : In b (esc_cp c) -> b <> 10 /\ b <> 13 /\ b <> 34.
Proof.
  unfold esc_cp. destruct (N.eqb_spec c 10); [simpl; intros [<-|[<-|[<-|[]]]]; repeat split; discriminate|].
  destruct (N.eqb_spec c 13); [simpl; intros [<-|[<-|[<-|[]]]]; repeat split; discriminate|].
  destruct (N.eqb_spec c 34); [simpl; intros [<-|[<-|[<-|[]]]]; repeat split; discriminate|].
  intros [<-|[]]. auto.
Qed.

Lemma escape_safe s b : In b (escape s) -> b <> 10 /\ b <> 13 /\ b <> 34.
Proof. unfold escape. intros H. apply in_flat_map in H as (c & _ & H). eapply esc_cp_safe; eauto. Qed.

Theorem param_escape_safe s bs :
  utf8 (escape s) = Some bs -> ~ In QUOTE bs /\ ~ In CR bs /\ ~ In LF bs.
Proof.
  intros H. unfold QUOTE, CR, LF.
  assert (G : forall b, b < 128 -> In b bs -> b <> 10 /\ b <> 13 /\ b <> 34).
  { intros b Hb Hin. apply escape_safe with (s := s). eapply utf8_low_byte; eauto. }
  repeat split; intros Hin; [destruct (G 34) as (_ & _ & X) | destruct (G 13) as (_ & X & _) | destruct (G 10) as (X & _)];
    try lia; try assumption; congruence.
Qed.

(* ---------------- searching ---------------- *)
Lemma strip_prefix_app p s : strip_prefix p (p ++ s) = Some s.
Proof. induction p as [|x p IH]; simpl; [reflexivity|]. rewrite N.eqb_refl. assumption. Qed.

Definition no_early (p a rest : bytes) : Prop :=
  forall i, (i < length a)%nat -> strip_prefix p (skipn i (a ++ rest)) = None.

Lemma find_sub_first x p a r :
  no_early (x :: p) a ((x :: p) ++ r) -> find_sub (x :: p) (a ++ (x :: p) ++ r) = Some (a, r).
Proof.
  induction a as [|c a IH]; intros H.
  - change ([] ++ (x :: p) ++ r) with (x :: (p ++ r)). cbn [find_sub].
    change (x :: p ++ r) with ((x :: p) ++ r). rewrite strip_prefix_app. reflexivity.
  - assert (H0 : strip_prefix (x :: p) ((c :: a) ++ (x :: p) ++ r) = None) by (apply (H 0%nat); simpl; lia).
    assert (IH' : find_sub (x :: p) (a ++ (x :: p) ++ r) = Some (a, r)).
    { apply IH. intros i Hi. apply (H (S i)). simpl. lia. }
    change ((c :: a) ++ (x :: p) ++ r) with (c :: (a ++ (x :: p) ++ r)) in *.
    cbn [find_sub]. rewrite H0. rewrite IH'. reflexivity.
Qed.

(* the first byte of the pattern does not occur in `a` *)
Lemma no_early_first x p a rest : ~ In x a -> no_early (x :: p) a rest.
Proof.
  intros Hni i Hi. revert i Hi. induction a as [|c a IH]; intros i Hi; simpl in Hi; [lia|].
  destruct i as [|i].
  - simpl. destruct (N.eqb_spec x c) as [->|]; [exfalso; apply Hni; left; reflexivity | reflexivity].
  - simpl. apply IH; [intros H; apply Hni; right; assumption | lia].
Qed.

(* pattern whose first byte occurs nowhere else in it: occurrences cannot straddle *)
Lemma strip_prefix_split p a X r :
  strip_prefix p (a ++ X) = Some r ->
  (exists r', strip_prefix p a = Some r') \/
  (exists p2, p = a ++ p2 /\ p2 <> [] /\ strip_prefix p2 X = Some r).
Proof.
  revert a. induction p as [|x p IH]; intros a H.
  - left. exists a. reflexivity.
  - destruct a as [|c a].
    + right. exists (x :: p). split; [reflexivity|]. split; [discriminate | assumption].
    + simpl in H. destruct (N.eqb_spec x c) as [->|]; [|discriminate].
      destruct (IH a H) as [[r' Hr]|(p2 & -> & Hne & Hp2)].
      * left. exists r'. simpl. rewrite N.eqb_refl. assumption.
      * right. exists p2. split; [reflexivity | split; assumption].
Qed.

Definition not_in (p d : bytes) : Prop := forall i, strip_prefix p (skipn i d) = None.

Lemma no_early_border x p d rest :
  ~ In x p -> not_in (x :: p) d -> no_early (x :: p) d ((x :: p) ++ rest).
Proof.
  intros Hx Hn i Hi.
  destruct (strip_prefix (x :: p) (skipn i (d ++ (x :: p) ++ rest))) as [r|] eqn:E; [|reflexivity].
  exfalso. rewrite skipn_app in E.
  replace (i - length d)%nat with 0%nat in E by lia. simpl skipn at 2 in E.
  apply strip_prefix_split in E as [[r' Hr]|(p2 & Hp & Hne & Hp2)].
  - rewrite (Hn i) in Hr. discriminate.
  - (* the pattern would continue with its own first byte *)
    destruct (skipn i d) as [|c d'] eqn:Ed.
    + assert (length (skipn i d) = 0%nat) by (rewrite Ed; reflexivity). rewrite skipn_length in H. lia.
    + simpl in Hp. injection Hp as -> Hp. destruct p2 as [|y p2]; [congruence|].
      simpl in Hp2. destruct (N.eqb_spec y c) as [->|]; [|discriminate].
      apply Hx. rewrite Hp. apply in_app_iff. right. left. reflexivity.
Qed.

(* ---------------- shape of the encoder's output, in bytes ---------------- *)
Local Opaque L_CD L_CT L_FD L_FN.

Definition cd_bytes (nb : bytes) (fnb : option bytes) : bytes :=
  L_FD ++ nb ++ [QUOTE] ++ match fnb with Some x => L_FN ++ x ++ [QUOTE] | None => [] end.
Definition hdr_bytes (nb : bytes) (fnb ctb : option bytes) : bytes :=
  L_CD ++ cd_bytes nb fnb ++ CRLF ++ match ctb with Some c => L_CT ++ c ++ CRLF | None => [] end ++ CRLF.

Lemma content_disposition_shape f :
  content_disposition f =
  L_FD ++ escape (f_name f) ++ [QUOTE] ++
  match f_filename f with Some fn => L_FN ++ escape fn ++ [QUOTE] | None => [] end.
Proof.
  Local Transparent L_FD L_FN.
  unfold content_disposition, render_param. destruct (f_filename f); rewrite <- ?app_assoc; reflexivity.
  Local Opaque L_FD L_FN.
Qed.

Lemma utf8_lit_FD : utf8 L_FD = Some L_FD. Proof. Local Transparent L_FD. reflexivity. Qed.
Lemma utf8_lit_FN : utf8 L_FN = Some L_FN. Proof. Local Transparent L_FN. reflexivity. Qed.
Lemma utf8_lit_CD : utf8 L_CD = Some L_CD. Proof. Local Transparent L_CD. reflexivity. Qed.
Lemma utf8_lit_CT : utf8 L_CT = Some L_CT. Proof. Local Transparent L_CT. reflexivity. Qed.
Local Opaque L_CD L_CT L_FD L_FN.

Lemma utf8_app_some a b x y : utf8 a = Some x -> utf8 b = Some y -> utf8 (a ++ b) = Some (x ++ y).
Proof. intros Ha Hb. rewrite utf8_app, Ha, Hb. reflexivity. Qed.

Lemma utf8_quote : utf8 [QUOTE] = Some [QUOTE]. Proof. reflexivity. Qed.
Lemma utf8_crlf : utf8 [13; 10] = Some CRLF. Proof. reflexivity. Qed.
Lemma utf8_nil : utf8 [] = Some []. Proof. reflexivity. Qed.

Lemma utf8_content_disposition f nb fnb :
  utf8 (escape (f_name f)) = Some nb ->
  match f_filename f with Some fn => option_map Some (utf8 (escape fn)) | None => Some None end = Some fnb ->
  utf8 (content_disposition f) = Some (cd_bytes nb fnb).
Proof.
  intros Hn Hf. rewrite content_disposition_shape. unfold cd_bytes.
  apply utf8_app_some; [apply utf8_lit_FD|].
  apply utf8_app_some; [assumption|].
  apply utf8_app_some; [apply utf8_quote|].
  destruct (f_filename f) as [fn|].
  - destruct (utf8 (escape fn)) as [x|] eqn:E; [|discriminate]. injection Hf as <-.
    apply utf8_app_some; [apply utf8_lit_FN|]. apply utf8_app_some; [assumption | apply utf8_quote].
  - injection Hf as <-. reflexivity.
Qed.

Lemma render_headers_shape f :
  render_headers f =
  L_CD ++ content_disposition f ++ [13; 10] ++
  match truthy (f_ctype f) with Some ct => L_CT ++ ct ++ [13; 10] | None => [] end ++ [13; 10].
Proof. Local Transparent L_CD L_CT. reflexivity. Local Opaque L_CD L_CT. Qed.

Lemma utf8_render_headers f nb fnb ctb :
  utf8 (escape (f_name f)) = Some nb ->
  match f_filename f with Some fn => option_map Some (utf8 (escape fn)) | None => Some None end = Some fnb ->
  match truthy (f_ctype f) with Some ct => option_map Some (utf8 ct) | None => Some None end = Some ctb ->
  utf8 (render_headers f) = Some (hdr_bytes nb fnb ctb).
Proof.
  intros Hn Hf Hc. rewrite render_headers_shape. unfold hdr_bytes.
  apply utf8_app_some; [apply utf8_lit_CD|].
  apply utf8_app_some; [apply utf8_content_disposition; assumption|].
  apply utf8_app_some; [apply utf8_crlf|].
  apply utf8_app_some; [|apply utf8_crlf].
  destruct (truthy (f_ctype f)) as [ct|].
  - destruct (utf8 ct) as [x|] eqn:E; [|discriminate]. injection Hc as <-.
    apply utf8_app_some; [apply utf8_lit_CT|]. apply utf8_app_some; [assumption | apply utf8_crlf].
  - injection Hc as <-. reflexivity.
Qed.

(* ---------------- the parser reads the encoder's shapes back ---------------- *)
Lemma find_quote nb rest : ~ In QUOTE nb -> parse_quoted (nb ++ [QUOTE] ++ rest) = Some (nb, rest).
Proof.
  intros H. unfold parse_quoted. apply (find_sub_first QUOTE [] nb rest).
  apply no_early_first. assumption.
Qed.

Lemma L_FN_cons : exists c r, L_FN = c :: r.
Proof. Local Transparent L_FN. eexists. eexists. reflexivity. Local Opaque L_FN. Qed.

Lemma parse_cd_ok nb fnb :
  ~ In QUOTE nb -> (forall x, fnb = Some x -> ~ In QUOTE x) ->
  parse_cd (cd_bytes nb fnb) = Some (nb, fnb).
Proof.
  intros Hn Hf. unfold parse_cd, cd_bytes. rewrite strip_prefix_app.
  rewrite find_quote by assumption.
  destruct fnb as [x|]; [|reflexivity].
  destruct L_FN_cons as (c & r & E).
  assert (Hne : L_FN ++ x ++ [QUOTE] = c :: (r ++ x ++ [QUOTE])) by (rewrite E; reflexivity).
  rewrite Hne at 1. rewrite strip_prefix_app.
  replace (x ++ [QUOTE]) with (x ++ [QUOTE] ++ []) by reflexivity.
  rewrite find_quote by (apply Hf; reflexivity). reflexivity.
Qed.

Lemma no_cr_lits : ~ In CR L_CD /\ ~ In CR L_CT /\ ~ In CR L_FD /\ ~ In CR L_FN.
Proof.
  Local Transparent L_CD L_CT L_FD L_FN.
  unfold CR. repeat split; intros H; simpl in H;
    repeat (destruct H as [H|H]; [discriminate|]); contradiction.
  Local Opaque L_CD L_CT L_FD L_FN.
Qed.

Lemma find_crlf line rest : ~ In CR line -> find_sub CRLF (line ++ CRLF ++ rest) = Some (line, rest).
Proof.
  intros H. apply (find_sub_first CR [LF] line rest). apply no_early_first. assumption.
Qed.

Lemma not_in_app {A} (x : A) a b : ~ In x a -> ~ In x b -> ~ In x (a ++ b).
Proof. intros Ha Hb H. apply in_app_iff in H. tauto. Qed.

Lemma cd_bytes_no_cr nb fnb :
  ~ In CR nb -> (forall x, fnb = Some x -> ~ In CR x) -> ~ In CR (cd_bytes nb fnb).
Proof.
  intros Hn Hf. destruct no_cr_lits as (_ & _ & H3 & H4). unfold cd_bytes.
  apply not_in_app; [assumption|]. apply not_in_app; [assumption|].
  apply not_in_app; [unfold CR, QUOTE; simpl; intros [H|[]]; discriminate|].
  destruct fnb as [x|]; [|simpl; tauto].
  apply not_in_app; [assumption|]. apply not_in_app; [apply Hf; reflexivity|].
  unfold CR, QUOTE; simpl; intros [H|[]]; discriminate.
Qed.

Lemma L_CT_cons : exists c r, L_CT = c :: r.
Proof. Local Transparent L_CT. eexists. eexists. reflexivity. Local Opaque L_CT. Qed.

Definition ct_part (ctb : option bytes) : bytes :=
  match ctb with Some c => L_CT ++ c ++ CRLF | None => [] end.

Lemma hdr_bytes_assoc nb fnb ctb rest :
  hdr_bytes nb fnb ctb ++ rest = (L_CD ++ cd_bytes nb fnb) ++ CRLF ++ (ct_part ctb ++ CRLF ++ rest).
Proof. unfold hdr_bytes, ct_part. rewrite <- !app_assoc. reflexivity. Qed.

Lemma parse_headers_ok nb fnb ctb rest :
  ~ In QUOTE nb -> ~ In CR nb ->
  (forall x, fnb = Some x -> ~ In QUOTE x /\ ~ In CR x) ->
  (forall c, ctb = Some c -> ~ In CR c) ->
  parse_headers (hdr_bytes nb fnb ctb ++ rest) = Some (nb, fnb, ctb, rest).
Proof.
  intros Hq Hc Hf Hct. destruct no_cr_lits as (H1 & H2 & _ & _).
  rewrite hdr_bytes_assoc. unfold parse_headers.
  assert (Hline1 : ~ In CR (L_CD ++ cd_bytes nb fnb)).
  { apply not_in_app; [assumption|]. apply cd_bytes_no_cr; [assumption | intros x Hx; apply (Hf x Hx)]. }
  rewrite find_crlf by assumption.
  rewrite strip_prefix_app.
  rewrite parse_cd_ok; [| assumption | intros x Hx; apply (Hf x Hx)].
  destruct ctb as [c|]; unfold ct_part.
  - replace ((L_CT ++ c ++ CRLF) ++ CRLF ++ rest) with ((L_CT ++ c) ++ CRLF ++ (CRLF ++ rest))
      by (rewrite <- !app_assoc; reflexivity).
    rewrite find_crlf by (apply not_in_app; [assumption | apply Hct; reflexivity]).
    destruct L_CT_cons as (x & r & E).
    assert (Hne : L_CT ++ c = x :: (r ++ c)) by (rewrite E; reflexivity).
    rewrite Hne. rewrite <- Hne. rewrite !strip_prefix_app. reflexivity.
  - rewrite (find_crlf [] rest) by (simpl; tauto). reflexivity.
Qed.

(* ---------------- round trip ---------------- *)
Definition DELIM (bb : bytes) : bytes := CRLF ++ DASHDASH ++ bb.

Record ok_field (bb : bytes) (f : field) (p : part) : Prop := {
  okf_exp : expected_part f = Some p;
  okf_ct : forall c, p_ctype p = Some c -> ~ In CR c;          (* caller-supplied content type is header-safe *)
  okf_data : not_in (DELIM bb) (p_data p)                       (* CRLF--boundary does not occur in the data *)
}.

Fixpoint tail_of (bb : bytes) (ps : list part) : bytes :=
  match ps with
  | [] => DASHDASH ++ CRLF
  | p :: r => CRLF ++ hdr_bytes (p_name p) (p_filename p) (p_ctype p) ++ p_data p ++ DELIM bb ++ tail_of bb r
  end.

Lemma expected_part_inv f p :
  expected_part f = Some p ->
  utf8 (escape (f_name f)) = Some (p_name p) /\
  match f_filename f with Some fn => option_map Some (utf8 (escape fn)) | None => Some None end = Some (p_filename p) /\
  match truthy (f_ctype f) with Some ct => option_map Some (utf8 ct) | None => Some None end = Some (p_ctype p) /\
  data_bytes (f_data f) = Some (p_data p).
Proof.
  unfold expected_part.
  destruct (utf8 (escape (f_name f))) as [n|]; [|discriminate].
  destruct (match f_filename f with Some fn => option_map Some (utf8 (escape fn)) | None => Some None end) as [fn|]; [|discriminate].
  destruct (match truthy (f_ctype f) with Some ct => option_map Some (utf8 ct) | None => Some None end) as [ct|]; [|discriminate].
  destruct (data_bytes (f_data f)) as [d|]; [|discriminate].
  intros [= <-]. simpl. auto.
Qed.

Lemma encode_part_shape bb f p :
  expected_part f = Some p ->
  encode_part bb f = Some (DASHDASH ++ bb ++ CRLF ++ hdr_bytes (p_name p) (p_filename p) (p_ctype p) ++ p_data p ++ CRLF).
Proof.
  intros H. apply expected_part_inv in H as (H1 & H2 & H3 & H4).
  unfold encode_part. rewrite (utf8_render_headers f _ _ _ H1 H2 H3), H4. reflexivity.
Qed.

Lemma encode_shape bb fs ps :
  Forall2 (fun f p => expected_part f = Some p) fs ps ->
  encode bb fs = Some (DASHDASH ++ bb ++ tail_of bb ps).
Proof.
  intros H. unfold encode.
  assert (G : exists b, encode_parts bb fs = Some b /\
                        b ++ DASHDASH ++ bb ++ DASHDASH ++ CRLF = DASHDASH ++ bb ++ tail_of bb ps).
  { induction H as [|f p fs ps Hf H IH]; cbn [encode_parts tail_of].
    - exists []. split; reflexivity.
    - destruct IH as (b & Hb & Eb). rewrite (encode_part_shape bb f p Hf), Hb.
      eexists. split; [reflexivity|]. unfold DELIM. rewrite <- !app_assoc.
      rewrite Eb. reflexivity. }
  destruct G as (b & -> & E). rewrite E. reflexivity.
Qed.

Lemma safe_of_expected f p :
  expected_part f = Some p ->
  ~ In QUOTE (p_name p) /\ ~ In CR (p_name p) /\
  (forall x, p_filename p = Some x -> ~ In QUOTE x /\ ~ In CR x).
Proof.
  intros H. apply expected_part_inv in H as (H1 & H2 & _ & _).
  destruct (param_escape_safe _ _ H1) as (A & B & _). split; [assumption|]. split; [assumption|].
  intros x Hx. rewrite Hx in H2. destruct (f_filename f) as [fn|]; [|discriminate].
  destruct (utf8 (escape fn)) as [y|] eqn:E; [|discriminate]. injection H2 as ->.
  destruct (param_escape_safe _ _ E) as (A' & B' & _). auto.
Qed.

Lemma parse_tail bb fs ps fuel :
  ~ In CR bb -> Forall2 (ok_field bb) fs ps -> (length ps < fuel)%nat ->
  parse_after_delim fuel bb (tail_of bb ps) = Some ps.
Proof.
  intros Hbb H. revert fuel. induction H as [|f p fs ps Hf H IH]; intros fuel Hl.
  - destruct fuel as [|fu]; [simpl in Hl; lia|]. reflexivity.
  - destruct fuel as [|fu]; [simpl in Hl; lia|].
    destruct Hf as [Hexp Hct Hdata].
    destruct (safe_of_expected f p Hexp) as (Hq & Hc & Hfn).
    cbn [parse_after_delim tail_of].
    replace (str_eqb (CRLF ++ hdr_bytes (p_name p) (p_filename p) (p_ctype p) ++ p_data p ++ DELIM bb ++ tail_of bb ps) (DASHDASH ++ CRLF))
      with false by reflexivity.
    rewrite strip_prefix_app.
    rewrite parse_headers_ok by assumption.
    assert (Hfind : find_sub (CRLF ++ DASHDASH ++ bb) (p_data p ++ DELIM bb ++ tail_of bb ps) = Some (p_data p, tail_of bb ps)).
    { unfold DELIM. change (CRLF ++ DASHDASH ++ bb) with (CR :: (LF :: 45 :: 45 :: bb)).
      apply find_sub_first. apply no_early_border; [|exact Hdata].
      unfold CR, LF. simpl. intros [X|[X|[X|X]]]; try discriminate. apply Hbb. exact X. }
    rewrite Hfind. rewrite IH by (simpl in Hl; lia). destruct p; reflexivity.
Qed.

Lemma length_tail bb ps : (length ps <= length (tail_of bb ps))%nat.
Proof.
  induction ps as [|p ps IH]; cbn [tail_of length]; [lia|].
  rewrite !app_length. unfold CRLF. cbn [length]. lia.
Qed.

Theorem roundtrip bb fs ps :
  ~ In CR bb -> Forall2 (ok_field bb) fs ps ->
  exists body, encode bb fs = Some body /\ parse_strict bb body = Some ps.
Proof.
  intros Hbb H. exists (DASHDASH ++ bb ++ tail_of bb ps). split.
  - apply encode_shape. induction H as [|f p fs ps Hf H IH]; constructor; [apply Hf | assumption].
  - unfold parse_strict. rewrite app_assoc, strip_prefix_app.
    apply (parse_tail bb fs ps); [assumption | assumption|].
    rewrite app_length. pose proof (length_tail bb ps). lia.
Qed.
